//! C19 — equality, ordering and hashing coincide with mathematical identity.
use crate::c02_towers::*;
use crate::c03_curves::*;
use crate::fields::*;
use crate::plain::*;
use crate::sym::{any, assume};
use crate::towers::*;
use crate::toy_curves::*;
use ark_ec::{short_weierstrass::{self as sw, SWCurveConfig}, twisted_edwards::{self as te, TECurveConfig}};
use ark_ff::{Field, One, Zero};
use core::cmp::Ordering;
use core::hash::{Hash, Hasher};

/// a byte-collecting hasher: the hash "value" is the exact byte stream fed by `Hash`
pub struct Collect {
    pub buf: [u8; 64],
    pub n: usize,
}
impl Collect {
    pub fn new() -> Self {
        Collect { buf: [0; 64], n: 0 }
    }
    pub fn of<T: Hash>(t: &T) -> Self {
        let mut c = Collect::new();
        t.hash(&mut c);
        c
    }
    pub fn same(&self, o: &Self) -> bool {
        let mut ok = self.n == o.n;
        let mut i = 0;
        while i < 64 {
            ok &= self.buf[i] == o.buf[i];
            i += 1;
        }
        ok
    }
}
impl Hasher for Collect {
    fn finish(&self) -> u64 {
        self.n as u64
    }
    fn write(&mut self, bytes: &[u8]) {
        let mut i = 0;
        while i < bytes.len() {
            if self.n < 64 {
                self.buf[self.n] = bytes[i];
            }
            self.n += 1;
            i += 1;
        }
    }
}

fn prime_order<F: Tiny>() {
    let (a, b, c) = (F::any(), F::any(), F::any());
    let (va, vb, vc) = (a.val(), b.val(), c.val());
    crate::cover!(va < vb && a.limb() > b.limb());
    let mut ok = (a == b) == (va == vb) && a.cmp(&b) == va.cmp(&vb) && a.partial_cmp(&b) == Some(va.cmp(&vb));
    ok &= (a < b) == (va < vb) && (a <= b) == (va <= vb);
    // transitivity on the triple, zero / one predicates, hash consistency
    ok &= !(a <= b && b <= c) || a <= c;
    ok &= a.is_zero() == (a == F::ZERO) && a.is_one() == (a == F::ONE);
    ok &= !(a == b) || Collect::of(&a).same(&Collect::of(&b));
    assert!(ok);
}
fn quad_order<A: Conv<O> + Ord + Hash, O: OF>(key: fn(&O) -> (u32, u32)) {
    let (x, y, z) = (O::any(), O::any(), O::any());
    let (a, b, c) = (A::from_o(&x), A::from_o(&y), A::from_o(&z));
    // documented order: lexicographic, highest coefficient first
    let (kx, ky) = (key(&x), key(&y));
    let want = match kx.0.cmp(&ky.0) {
        Ordering::Equal => kx.1.cmp(&ky.1),
        o => o,
    };
    crate::cover!(kx.0 == ky.0 && kx.1 < ky.1);
    crate::cover!(kx.0 < ky.0 && kx.1 > ky.1);
    let mut ok = a.cmp(&b) == want && a.partial_cmp(&b) == Some(want) && (a == b) == (x == y) && (a < b) == (want == Ordering::Less);
    ok &= (a.cmp(&b) == Ordering::Equal) == (a == b) && a.cmp(&b) == b.cmp(&a).reverse();
    ok &= !(a <= b && b <= c) || a <= c;
    ok &= a.is_zero() == (a == A::ZERO) && a.is_one() == (a == A::ONE);
    ok &= !(a == b) || Collect::of(&a).same(&Collect::of(&b));
    assert!(ok);
}
/// extension with no documented coordinate priority ("ordered lexicographically"): order axioms, agreement with == and with the
/// integer order on base-field elements (true of every lexicographic order), predicates, hashing
fn ext_order<A: Conv<O> + Ord + Hash, O: OF>(c0: fn(&O) -> u32, lift: fn(u32) -> O) {
    let (x, y, z) = (O::any(), O::any(), O::any());
    let (a, b, c) = (A::from_o(&x), A::from_o(&y), A::from_o(&z));
    crate::cover!(x != y && c0(&x) == c0(&y));
    crate::cover!(a < b && c0(&x) > c0(&y));
    let mut ok = (a == b) == (x == y) && (a.cmp(&b) == Ordering::Equal) == (x == y) && a.partial_cmp(&b) == Some(a.cmp(&b));
    ok &= a.cmp(&b) == b.cmp(&a).reverse() && (a < b) == (a.cmp(&b) == Ordering::Less) && (a <= b) == (a.cmp(&b) != Ordering::Greater);
    ok &= !(a <= b && b <= c) || a <= c;
    // on the embedded base field the order is the integer order
    let (u, v) = (c0(&x), c0(&y));
    ok &= A::from_o(&lift(u)).cmp(&A::from_o(&lift(v))) == u.cmp(&v);
    ok &= a.is_zero() == (x == O::zero()) && a.is_one() == (x == O::one()) && a.is_zero() == (a == A::ZERO) && a.is_one() == (a == A::ONE);
    ok &= !(x == y) || Collect::of(&a).same(&Collect::of(&b));
    ok &= x == y || a != b;
    assert!(ok);
}
fn sw_hash_eq<C: SWCurveConfig + Toy>()
where
    C::BaseField: Tiny,
{
    let (i, j) = (any_index::<C>(), any_index::<C>());
    let (z1, z2) = (any_nz(C::T.p), any_nz(C::T.p));
    let (a, b) = (sw_proj::<C>(i, z1), sw_proj::<C>(j, z2));
    let (aa, ba) = (sw_affine::<C>(i), sw_affine::<C>(j));
    let (ha, hb) = (Collect::of(&a), Collect::of(&b));
    crate::cover!(i == j && z1 != z2 && i != 0);
    crate::cover!(i == 0 && j == 0);
    let mut ok = (a == b) == (i == j) && (aa == ba) == (i == j) && (a == ba) == (i == j) && (ba == a) == (i == j);
    // equal points hash equally whatever the representative; affine and projective hash alike
    ok &= i != j || ha.same(&hb);
    ok &= ha.same(&Collect::of(&aa));
    ok &= a.is_zero() == (i == 0);
    assert!(ok);
}
fn te_hash_eq<C: TECurveConfig + Toy>()
where
    C::BaseField: Tiny,
{
    let (i, j) = (any_index::<C>(), any_index::<C>());
    let (z1, z2) = (any_nz(C::T.p), any_nz(C::T.p));
    let (a, b) = (te_proj::<C>(i, z1), te_proj::<C>(j, z2));
    let (aa, ba) = (te_affine::<C>(i), te_affine::<C>(j));
    let (ha, hb) = (Collect::of(&a), Collect::of(&b));
    crate::cover!(i == j && z1 != z2 && i != 0);
    crate::cover!(i != j && C::T.pts[i].0 == 0 && C::T.pts[j].0 == 0);
    let mut ok = (a == b) == (i == j) && (aa == ba) == (i == j) && (a == ba) == (i == j) && (ba == a) == (i == j);
    ok &= i != j || ha.same(&hb);
    ok &= ha.same(&Collect::of(&aa));
    ok &= a.is_zero() == (i == 0);
    assert!(ok);
}

crate::harnesses! { REG;
    /// quick required | F_13 (Montgomery derive): ALL triples: == iff same integer, cmp / partial_cmp / < / <= are the integer order of the decoded values (not of the Montgomery limbs), transitive, is_zero/is_one iff == ZERO/ONE, equal values hash equally
    #[unwind(70)]
    fn c19_prime_f13() { prime_order::<DF13>() }
    /// quick required | F_251 (hand-written config): ALL triples: integer order, equality, predicates, hashing
    #[unwind(70)]
    fn c19_prime_f251() { prime_order::<HF251>() }
    /// quick required | Fp2 over F_7: ALL triples: cmp is the documented lexicographic order (c1 first, then c0), total, antisymmetric, transitive, consistent with ==; predicates; hashing
    #[unwind(70)]
    fn c19_fp2_order() { quad_order::<F7_2, O7_2>(|o| (o.0[1].0, o.0[0].0)) }
    /// quick required | Fp3 over F_7 (cubic extension): ALL triples: cmp total, antisymmetric, transitive, Equal iff ==, partial_cmp = Some(cmp), integer order on the embedded base field; is_zero / is_one iff == ZERO / ONE (every coordinate matters); equal values hash equally
    #[unwind(70)]
    fn c19_fp3_order() { ext_order::<F7_3, O7_3>(|o| o.0[0].0, |v| OE([OP(v), OP(0), OP(0)], core::marker::PhantomData)) }
    /// thorough required | Fp4 = Fp2[X]/(X^2 - u) over F_5 (quadratic over quadratic): ALL triples: order axioms, equality, predicates, hashing
    #[unwind(70)]
    fn c19_fp4_order() { ext_order::<F5_4, O5_4>(|o| o.0[0].0[0].0, |v| OE([OE([OP(v), OP(0)], core::marker::PhantomData), OE([OP(0), OP(0)], core::marker::PhantomData)], core::marker::PhantomData)) }
    /// quick required | SW cofactor 4: ALL pairs of points, ALL rescalings: Projective == independent of the representative, Projective == Affine, equal points hash to the same byte stream (different Jacobian coordinates, affine vs projective)
    #[unwind(70)]
    fn c19_sw_hash_eq() { sw_hash_eq::<SwCof4>() }
    /// quick required | SW b = 0 (the curve has the affine point (0, 0), whose coordinates are those of the stored identity): ALL pairs, ALL rescalings: ==, Projective == Affine, is_zero, hashing
    #[unwind(70)]
    fn c19_sw_hash_eq_b0() { sw_hash_eq::<SwB0>() }
    /// quick required | TE complete: ALL pairs of points, ALL rescalings: equality and hashing (the identity (0,1) vs the order-two point (0,-1) distinguished)
    #[unwind(70)]
    fn c19_te_hash_eq() { te_hash_eq::<TeC>() }
}
