//! `harnesses!` declares Kani proof harnesses that are also callable natively (replay), plus a registry.
#[macro_export]
macro_rules! harnesses {
    ($reg:ident; $( $(#[doc = $d:expr])* #[unwind($u:expr)] fn $name:ident() $body:block )*) => {
        $(
            $(#[doc = $d])*
            #[cfg_attr(kani, kani::proof)]
            #[cfg_attr(kani, kani::unwind($u))]
            pub fn $name() $body
        )*
        pub const $reg: &[(&str, fn())] = &[ $( (stringify!($name), $name as fn()) ),* ];
    };
}
