//! C07 — FFT/IFFT over every evaluation domain equal naive evaluation/interpolation.
//! Field: table-backed F_17 (two-adicity 4, so radix-2 domains of size 1..16 exist).  Oracle: Horner evaluation on integers
//! mod 17 at offset * g^i with g recomputed independently (3 is a primitive root mod 17).
use crate::fields::Tiny;
use crate::plain::*;
use crate::sym::{any, assume};
use ark_ff::{FftField, Field, One, Zero};
use ark_poly::{EvaluationDomain, GeneralEvaluationDomain, Polynomial, Radix2EvaluationDomain};
use ark_std::vec::Vec;

type F = PF17;
const P: u32 = 17;

fn anyv() -> u32 {
    let v: u32 = any();
    let v = v & 0x1f;
    assume(v < P);
    v
}
fn powm(b: u32, e: u32) -> u32 {
    let mut r = 1;
    let mut i = 0;
    while i < e {
        r = (r * b) % P;
        i += 1;
    }
    r
}
fn horner(c: &[u32], x: u32) -> u32 {
    let mut acc = 0u32;
    let mut i = c.len();
    while i > 0 {
        i -= 1;
        acc = (acc * x + c[i]) % P;
    }
    acc
}
fn next_pow2(n: usize) -> usize {
    let mut s = 1;
    while s < n {
        s *= 2;
    }
    s
}

/// construction: size >= n and minimal; None exactly when no subgroup exists; generator of exact order; derived fields consistent
fn domain_new() {
    let n: usize = any();
    assume(n <= 20);
    let d = Radix2EvaluationDomain::<F>::new(n);
    let g = GeneralEvaluationDomain::<F>::new(n);
    let sz = Radix2EvaluationDomain::<F>::compute_size_of_domain(n);
    let want = next_pow2(n);
    crate::cover!(n == 16);
    crate::cover!(n == 17);
    crate::cover!(n == 0);
    let ok = match d {
        None => want > 16 && sz.is_none() && g.is_none(),
        Some(d) => {
            let s = d.size();
            let gen = d.group_gen().val();
            let mut ok = want <= 16 && s == want && sz == Some(want) && matches!(g, Some(gd) if gd.size() == want);
            ok &= d.log_size_of_group() == s.trailing_zeros() as u64;
            // exact order: gen^s = 1 and gen^(s/2) != 1
            ok &= powm(gen, s as u32) == 1 && (s == 1 || powm(gen, s as u32 / 2) != 1);
            ok &= (gen * d.group_gen_inv().val()) % P == 1 && (d.size_inv().val() * (s as u32 % P)) % P == 1;
            ok &= d.size_as_field_element().val() == s as u32 % P && d.coset_offset().val() == 1 && d.coset_offset_inv().val() == 1 && d.coset_offset_pow_size().val() == 1;
            ok &= F::get_root_of_unity(s as u64).map(|r| r.val()) == Some(gen);
            ok
        },
    };
    assert!(ok);
}
/// coset construction, element(i), elements() order
fn coset_elements<const S: usize>(h: u32) {
    let d = Radix2EvaluationDomain::<F>::new(S).unwrap().get_coset(F::enc(h)).unwrap();
    let gen = d.group_gen().val();
    let i: usize = any();
    assume(i < S);
    let want = (h * powm(gen, i as u32)) % P;
    let mut it = d.elements();
    let mut k = 0;
    let mut ok = true;
    while k < S {
        let e = it.next();
        ok &= matches!(e, Some(x) if k != i || x.val() == want);
        k += 1;
    }
    ok &= it.next().is_none();
    crate::cover!(i == S - 1);
    ok &= d.element(i).val() == want && d.size() == S && d.coset_offset().val() == h
        && (d.coset_offset_inv().val() * h) % P == 1 && d.coset_offset_pow_size().val() == powm(h, S as u32);
    // vanishing polynomial at a symbolic point: tau^S - h^S
    let tau = anyv();
    ok &= d.evaluate_vanishing_polynomial(F::enc(tau)).val() == (powm(tau, S as u32) + P - powm(h, S as u32)) % P;
    assert!(ok);
}
/// fft of L symbolic coefficients over a coset of size S with symbolic non-zero offset: out[i] = sum c_j (h g^i)^j; ifft(fft(c)) = c padded
fn fft_check<const S: usize, const L: usize>(h: u32) {
    let c: [u32; L] = core::array::from_fn(|_| anyv());
    let coset = h != 1;
    let base = Radix2EvaluationDomain::<F>::new(S).unwrap();
    let d = if coset { base.get_coset(F::enc(h)).unwrap() } else { base };
    let gen = d.group_gen().val();
    let cv: [F; L] = core::array::from_fn(|k| F::enc(c[k]));
    let coeffs: Vec<F> = cv.to_vec();
    let evals = d.fft(&coeffs);
    let back = d.ifft(&evals);
    let i: usize = any();
    assume(i < S);
    let x = (h * powm(gen, i as u32)) % P;
    crate::cover!(L == 0 || (c[L - 1] != 0 && i > 0));
    let mut ok = evals.len() == S && back.len() == S;
    ok = ok && evals[i].val() == horner(&c, x);
    ok = ok && back[i].val() == if i < L { c[i] } else { 0 };
    core::mem::forget((coeffs, evals, back));
    assert!(ok);
}
/// Lagrange coefficients at a symbolic point tau (inside or outside the coset): sum_i L_i(tau) p(h g^i) = p(tau) for ALL polynomials p of degree < S
fn lagrange<const S: usize>(h: u32) {
    let c: [u32; S] = core::array::from_fn(|_| anyv());
    let tau = anyv();
    let d = Radix2EvaluationDomain::<F>::new(S).unwrap().get_coset(F::enc(h)).unwrap();
    let gen = d.group_gen().val();
    let l = d.evaluate_all_lagrange_coefficients(F::enc(tau));
    let mut acc = 0u32;
    let mut in_domain = false;
    let mut i = 0;
    let mut ok = l.len() == S;
    while i < S && ok {
        let x = (h * powm(gen, i as u32)) % P;
        in_domain |= x == tau;
        acc = (acc + l[i].val() * horner(&c, x)) % P;
        i += 1;
    }
    crate::cover!(in_domain);
    crate::cover!(!in_domain && tau != 0);
    ok = ok && acc == horner(&c, tau);
    core::mem::forget(l);
    assert!(ok);
}

fn domain_sizes() {
    let ns: [(usize, usize); 10] = [(0, 1), (1, 1), (2, 2), (3, 4), (5, 8), (8, 8), (9, 16), (16, 16), (17, 0), (20, 0)];
    let mut ok = true;
    let mut k = 0;
    while k < 10 {
        let (n, want) = ns[k];
        let d = Radix2EvaluationDomain::<F>::new(n);
        let g = GeneralEvaluationDomain::<F>::new(n);
        ok &= match d {
            None => want == 0 && g.is_none() && Radix2EvaluationDomain::<F>::compute_size_of_domain(n).is_none(),
            Some(d) => {
                let s = d.size();
                let gen = d.group_gen().val();
                s == want && matches!(g, Some(gd) if gd.size() == want) && powm(gen, s as u32) == 1 && (s == 1 || powm(gen, s as u32 / 2) != 1)
                    && (d.size_inv().val() * (s as u32 % P)) % P == 1 && (gen * d.group_gen_inv().val()) % P == 1
            },
        };
        k += 1;
    }
    crate::cover!(ok);
    assert!(ok);
}
// ---- mixed radix (q = 3) over the table-backed F_19: 18 = 2 * 3^2 ---------------------------------------------------
const P19: u32 = 19;
fn powm19(b: u32, e: u32) -> u32 {
    let mut r = 1;
    let mut i = 0;
    while i < e {
        r = (r * b) % P19;
        i += 1;
    }
    r
}
/// MixedRadixEvaluationDomain of size S over F_19 (h = 1: the subgroup; otherwise the coset h*H): coefficients at the positions
/// POS symbolic (ALL values), the others zero; every output equals Horner evaluation at h*g^i; ifft(fft(c)) = c
fn mixed_fft<const S: usize, const K: usize>(pos: [usize; K], h: u32) {
    use ark_poly::MixedRadixEvaluationDomain;
    let mut c = [0u32; S];
    let mut k = 0;
    while k < K {
        let v: u32 = any();
        let v = v & 31;
        assume(v < P19);
        c[pos[k]] = v;
        k += 1;
    }
    let base = MixedRadixEvaluationDomain::<PF19>::new(S).unwrap();
    let d = if h != 1 { base.get_coset(PF19::enc(h)).unwrap() } else { base };
    let gen = d.group_gen().val();
    let cv: [PF19; S] = core::array::from_fn(|k| PF19::enc(c[k]));
    let coeffs: Vec<PF19> = cv.to_vec();
    let evals = d.fft(&coeffs);
    let back = d.ifft(&evals);
    let i: usize = any();
    assume(i < S);
    let x = (h * powm19(gen, i as u32)) % P19;
    // independent Horner evaluation mod 19
    let mut acc = 0u32;
    let mut j = S;
    while j > 0 {
        j -= 1;
        acc = (acc * x + c[j]) % P19;
    }
    crate::cover!(c[pos[K - 1]] != 0 && i > 0);
    let mut ok = d.size() == S && evals.len() == S && back.len() == S && powm19(gen, S as u32) == 1 && (S < 2 || powm19(gen, S as u32 / 3) != 1);
    ok = ok && evals[i].val() == acc;
    ok = ok && back[i].val() == c[i];
    core::mem::forget((coeffs, evals, back));
    assert!(ok);
}

crate::harnesses! { REG;
    /// quick required unwindset=BitIteratorBE:66,>::pow:8 | MixedRadixEvaluationDomain of size 9 = 3^2 over F_19 (two radix-3 passes, the second with m = 3): FFT / IFFT with the coefficients at positions (1, 4, 8) symbolic (ALL values), the others zero: every output equals Horner evaluation at g^i; ifft(fft(c)) = c
    #[unwind(20)]
    fn c07_mixed_9_a() { mixed_fft::<9, 3>([1, 4, 8], 1) }
    /// thorough required unwindset=BitIteratorBE:66,>::pow:8 timeout=3000 | mixed radix size 9: coefficients at positions (0, 2, 5)
    #[unwind(20)]
    fn c07_mixed_9_b() { mixed_fft::<9, 3>([0, 2, 5], 1) }
    /// thorough required unwindset=BitIteratorBE:66,>::pow:8 timeout=3000 | mixed radix size 9: coefficients at positions (3, 6, 7)
    #[unwind(20)]
    fn c07_mixed_9_c() { mixed_fft::<9, 3>([3, 6, 7], 1) }
    /// quick required unwindset=BitIteratorBE:66,>::pow:8 | mixed radix size 6 = 2 * 3 (one radix-3 pass followed by one radix-2 pass): coefficients at positions (1, 3, 5) symbolic
    #[unwind(20)]
    fn c07_mixed_6() { mixed_fft::<6, 3>([1, 3, 5], 1) }
    /// thorough attempt unwindset=BitIteratorBE:66,>::pow:8 timeout=3000 | mixed radix size 6: ALL 6 coefficients symbolic; and the coset with offset 2, positions (0, 2, 4)
    #[unwind(20)]
    fn c07_mixed_6_more() { mixed_fft::<6, 6>([0, 1, 2, 3, 4, 5], 1); mixed_fft::<6, 3>([0, 2, 4], 2) }
    /// thorough attempt unwindset=BitIteratorBE:66,>::pow:8 timeout=3000 | mixed radix size 18 = 2 * 3^2 (the whole multiplicative group of F_19): coefficients at positions (1, 7, 11, 17) symbolic
    #[unwind(30)]
    fn c07_mixed_18() { mixed_fft::<18, 4>([1, 7, 11, 17], 1) }
    /// thorough attempt unwindset=BitIteratorBE:66,>::pow:8 timeout=3000 | mixed radix size 9: ALL 9 coefficients symbolic
    #[unwind(20)]
    fn c07_mixed_9_all() { mixed_fft::<9, 9>([0, 1, 2, 3, 4, 5, 6, 7, 8], 1) }
    /// thorough attempt unwindset=>::pow:8 timeout=3000 mem=30 | Radix2 / General domain construction over F_17 for ALL requested sizes n in 0..=20 (symbolic n)
    #[unwind(70)]
    fn c07_domain_new() { domain_new() }
    /// quick required unwindset=>::pow:8 | coset of size 4 with the generic offset 3: element(i) and elements() order for ALL i, offset fields, evaluate_vanishing_polynomial(tau) = tau^n - h^n for ALL tau
    #[unwind(70)]
    fn c07_coset_elements_4() { coset_elements::<4>(3) }
    /// quick required unwindset=>::pow:8 | coset of size 4 with offset 16 = -1 (inside the subgroup): element(i), elements(), offset fields, vanishing polynomial
    #[unwind(70)]
    fn c07_coset_elements_4_inside() { coset_elements::<4>(16) }
    /// thorough required unwindset=>::pow:8 timeout=3000 | coset of size 8 with offset 3: element(i), elements(), vanishing polynomial at ALL tau
    #[unwind(70)]
    fn c07_coset_elements_8() { coset_elements::<8>(3) }
    /// thorough required unwindset=>::pow:8 timeout=3000 | FFT / IFFT size 8 on the subgroup with 8 coefficients, ALL coefficients: every output equals Horner evaluation at g^i; ifft(fft(c)) = c
    #[unwind(70)]
    fn c07_fft_8_full() { fft_check::<8, 8>(1) }
    /// quick required unwindset=>::pow:8 | FFT / IFFT size 4 on the subgroup, input lengths 4, 3, 2 (degree-aware path: len*2 <= size), 1, 0: ALL coefficients: every output equals Horner evaluation at g^i; ifft(fft(c)) = c padded
    #[unwind(70)]
    fn c07_fft_4_subgroup() { fft_check::<4, 4>(1); fft_check::<4, 3>(1); fft_check::<4, 2>(1); fft_check::<4, 1>(1); fft_check::<4, 0>(1) }
    /// quick required unwindset=>::pow:8 | FFT / IFFT size 4 on the coset with generic offset 3, lengths 4 and 2, ALL coefficients
    #[unwind(70)]
    fn c07_fft_4_coset() { fft_check::<4, 4>(3); fft_check::<4, 2>(3) }
    /// quick required unwindset=>::pow:8 | FFT / IFFT size 4 on the coset with offset -1, which lies INSIDE the subgroup (offset^size = 1 but offset != 1), lengths 4 and 1, ALL coefficients
    #[unwind(70)]
    fn c07_fft_4_coset_inside() { fft_check::<4, 4>(16); fft_check::<4, 1>(16) }
    /// thorough required unwindset=>::pow:8 timeout=3000 | FFT / IFFT size 8 on the subgroup, lengths 8 and 3 (degree-aware), ALL coefficients
    #[unwind(70)]
    fn c07_fft_8_subgroup() { fft_check::<8, 8>(1); fft_check::<8, 3>(1) }
    /// thorough required unwindset=>::pow:8 timeout=3000 | FFT / IFFT size 8 on the coset with offset 3, lengths 8 and 5, ALL coefficients
    #[unwind(70)]
    fn c07_fft_8_coset() { fft_check::<8, 8>(3); fft_check::<8, 5>(3) }
    /// thorough required unwindset=>::pow:8 timeout=3000 | FFT / IFFT size 16 (the maximal domain of F_17), lengths 16, 7 and 4, offsets 1 and 3, ALL coefficients
    #[unwind(70)]
    fn c07_fft_16() { fft_check::<16, 16>(1); fft_check::<16, 7>(3); fft_check::<16, 4>(3) }
    /// thorough required unwindset=>::pow:8 timeout=3000 | evaluate_all_lagrange_coefficients on the coset of size 4 with offset 3: ALL tau (inside the coset: the special branch; and outside), ALL polynomials of degree < 4: sum L_i(tau) p(x_i) = p(tau)
    #[unwind(70)]
    fn c07_lagrange_4() { lagrange::<4>(3) }
    /// thorough required unwindset=>::pow:8 timeout=3000 | Lagrange coefficients on a coset of size 8, offset 3
    #[unwind(70)]
    fn c07_lagrange_8() { lagrange::<8>(3) }
    /// quick required unwindset=>::pow:8 | domain construction (concrete sizes: ground for new(), symbolic for nothing): new(n) for n = 0, 1, 2, 3, 5, 8, 9, 16 gives the minimal power of two, 17 and 20 give None; generator of exact order
    #[unwind(70)]
    fn c07_domain_sizes() { domain_sizes() }
}
