//! C07 — FFT/IFFT over every evaluation domain equal naive evaluation/interpolation.
//! Field: table-backed F_17 (two-adicity 4, so radix-2 domains of size 1..16 exist).  Oracle: Horner evaluation on integers
//! mod 17 at offset * g^i with g recomputed independently (3 is a primitive root mod 17).
use crate::fields::Tiny;
use crate::plain::*;
use crate::sym::{any, assume};
use ark_ff::{FftField, Field, One, Zero};
use ark_poly::{EvaluationDomain, GeneralEvaluationDomain, Polynomial, Radix2EvaluationDomain};
use ark_std::vec::Vec;

type F = PF17;
const P: u32 = 17;

fn anyv() -> u32 {
    let v: u32 = any();
    let v = v & 0x1f;
    assume(v < P);
    v
}
fn powm(b: u32, e: u32) -> u32 {
    let mut r = 1;
    let mut i = 0;
    while i < e {
        r = (r * b) % P;
        i += 1;
    }
    r
}
fn horner(c: &[u32], x: u32) -> u32 {
    let mut acc = 0u32;
    let mut i = c.len();
    while i > 0 {
        i -= 1;
        acc = (acc * x + c[i]) % P;
    }
    acc
}
fn next_pow2(n: usize) -> usize {
    let mut s = 1;
    while s < n {
        s *= 2;
    }
    s
}

/// construction: size >= n and minimal; None exactly when no subgroup exists; generator of exact order; derived fields consistent
fn domain_new() {
    let n: usize = any();
    assume(n <= 20);
    let d = Radix2EvaluationDomain::<F>::new(n);
    let g = GeneralEvaluationDomain::<F>::new(n);
    let sz = Radix2EvaluationDomain::<F>::compute_size_of_domain(n);
    let want = next_pow2(n);
    crate::cover!(n == 16);
    crate::cover!(n == 17);
    crate::cover!(n == 0);
    let ok = match d {
        None => want > 16 && sz.is_none() && g.is_none(),
        Some(d) => {
            let s = d.size();
            let gen = d.group_gen().val();
            let mut ok = want <= 16 && s == want && sz == Some(want) && matches!(g, Some(gd) if gd.size() == want);
            ok &= d.log_size_of_group() == s.trailing_zeros() as u64;
            // exact order: gen^s = 1 and gen^(s/2) != 1
            ok &= powm(gen, s as u32) == 1 && (s == 1 || powm(gen, s as u32 / 2) != 1);
            ok &= (gen * d.group_gen_inv().val()) % P == 1 && (d.size_inv().val() * (s as u32 % P)) % P == 1;
            ok &= d.size_as_field_element().val() == s as u32 % P && d.coset_offset().val() == 1 && d.coset_offset_inv().val() == 1 && d.coset_offset_pow_size().val() == 1;
            ok &= F::get_root_of_unity(s as u64).map(|r| r.val()) == Some(gen);
            ok
        },
    };
    assert!(ok);
}
/// coset construction, element(i), elements() order
fn coset_elements<const S: usize>() {
    let h = anyv();
    assume(h != 0);
    let d = Radix2EvaluationDomain::<F>::new(S).unwrap().get_coset(F::enc(h)).unwrap();
    let gen = d.group_gen().val();
    let i: usize = any();
    assume(i < S);
    let want = (h * powm(gen, i as u32)) % P;
    let mut it = d.elements();
    let mut k = 0;
    let mut ok = true;
    while k < S {
        let e = it.next();
        ok &= matches!(e, Some(x) if k != i || x.val() == want);
        k += 1;
    }
    ok &= it.next().is_none();
    crate::cover!(h > 1 && i == S - 1);
    ok &= d.element(i).val() == want && d.size() == S && d.coset_offset().val() == h
        && (d.coset_offset_inv().val() * h) % P == 1 && d.coset_offset_pow_size().val() == powm(h, S as u32);
    // vanishing polynomial at a symbolic point: tau^S - h^S
    let tau = anyv();
    ok &= d.evaluate_vanishing_polynomial(F::enc(tau)).val() == (powm(tau, S as u32) + P - powm(h, S as u32)) % P;
    assert!(ok);
}
/// fft of L symbolic coefficients over a coset of size S with symbolic non-zero offset: out[i] = sum c_j (h g^i)^j; ifft(fft(c)) = c padded
fn fft_check<const S: usize, const L: usize>(coset: bool) {
    let c: [u32; L] = core::array::from_fn(|_| anyv());
    let h = if coset { anyv() } else { 1 };
    assume(h != 0);
    let base = Radix2EvaluationDomain::<F>::new(S).unwrap();
    let d = if coset { base.get_coset(F::enc(h)).unwrap() } else { base };
    let gen = d.group_gen().val();
    let cv: [F; L] = core::array::from_fn(|k| F::enc(c[k]));
    let coeffs: Vec<F> = cv.to_vec();
    let evals = d.fft(&coeffs);
    let back = d.ifft(&evals);
    let i: usize = any();
    assume(i < S);
    let x = (h * powm(gen, i as u32)) % P;
    crate::cover!(L == 0 || (c[L - 1] != 0 && h > 1 && i > 0));
    let mut ok = evals.len() == S && back.len() == S;
    ok = ok && evals[i].val() == horner(&c, x);
    ok = ok && back[i].val() == if i < L { c[i] } else { 0 };
    core::mem::forget((coeffs, evals, back));
    assert!(ok);
}
/// Lagrange coefficients at a symbolic point tau (inside or outside the coset): sum_i L_i(tau) p(h g^i) = p(tau) for ALL polynomials p of degree < S
fn lagrange<const S: usize>() {
    let c: [u32; S] = core::array::from_fn(|_| anyv());
    let h = anyv();
    assume(h != 0);
    let tau = anyv();
    let d = Radix2EvaluationDomain::<F>::new(S).unwrap().get_coset(F::enc(h)).unwrap();
    let gen = d.group_gen().val();
    let l = d.evaluate_all_lagrange_coefficients(F::enc(tau));
    let mut acc = 0u32;
    let mut in_domain = false;
    let mut i = 0;
    let mut ok = l.len() == S;
    while i < S && ok {
        let x = (h * powm(gen, i as u32)) % P;
        in_domain |= x == tau;
        acc = (acc + l[i].val() * horner(&c, x)) % P;
        i += 1;
    }
    crate::cover!(in_domain);
    crate::cover!(!in_domain && tau != 0);
    ok = ok && acc == horner(&c, tau);
    core::mem::forget(l);
    assert!(ok);
}

crate::harnesses! { REG;
    /// quick required unwindset=>::pow:8 | TEST fft_check 4,4 subgroup
    #[unwind(70)]
    fn c07_t_a() { fft_check::<4, 4>(false) }
    /// quick required unwindset=>::pow:8 | TEST fft_check 4,4 coset
    #[unwind(70)]
    fn c07_t_b() { fft_check::<4, 4>(true) }
    /// quick required unwindset=>::pow:8 | TEST new(4) only
    #[unwind(70)]
    fn c07_t_new4() { let d = Radix2EvaluationDomain::<F>::new(4).unwrap(); crate::cover!(true); let ok = d.size() == 4 && powm(d.group_gen().val(), 4) == 1; assert!(ok); }
    /// quick required unwindset=>::pow:8 | TEST fft 4 subgroup
    #[unwind(70)]
    fn c07_t_fft4() {
        let c: [u32; 4] = core::array::from_fn(|_| anyv());
        let d = Radix2EvaluationDomain::<F>::new(4).unwrap();
        let gen = d.group_gen().val();
        let v: [F; 4] = core::array::from_fn(|i| F::enc(c[i]));
        let mut coeffs = v.to_vec();
        d.fft_in_place(&mut coeffs);
        let i: usize = any();
        assume(i < 4);
        crate::cover!(c[3] != 0);
        let ok = coeffs.len() == 4 && coeffs[i].val() == horner(&c, powm(gen, i as u32));
        core::mem::forget(coeffs);
        assert!(ok);
    }
    /// quick required unwindset=>::pow:8,compute_powers:18 | Radix2 / General domain construction over F_17 for ALL requested sizes n in 0..=20: size >= n and minimal power of two, None exactly when n > 16 (no subgroup), generator of EXACT order, inverse / size_inv / offset fields consistent, get_root_of_unity agrees
    #[unwind(70)]
    fn c07_domain_new() { domain_new() }
    /// quick required unwindset=>::pow:8,compute_powers:18 | coset of size 4 with ALL non-zero offsets: element(i) and elements() order for ALL i, offset fields, evaluate_vanishing_polynomial(tau) = tau^n - h^n for ALL tau
    #[unwind(70)]
    fn c07_coset_elements_4() { coset_elements::<4>() }
    /// quick required unwindset=>::pow:8,compute_powers:18 | coset of size 8 with ALL non-zero offsets: element(i), elements(), vanishing polynomial
    #[unwind(70)]
    fn c07_coset_elements_8() { coset_elements::<8>() }
    /// quick required unwindset=>::pow:8,compute_powers:18 | FFT / IFFT size 4, input length 4, ALL coefficients, ALL coset offsets: every output equals Horner evaluation at h*g^i; ifft(fft(c)) = c
    #[unwind(70)]
    fn c07_fft_4_full() { fft_check::<4, 4>(true) }
    /// quick required unwindset=>::pow:8,compute_powers:18 | FFT / IFFT size 4, input lengths 0, 1, 2 (degree-aware path: len*2 <= size) and 3, subgroup (offset 1), ALL coefficients
    #[unwind(70)]
    fn c07_fft_4_short() { fft_check::<4, 0>(false); fft_check::<4, 1>(false); fft_check::<4, 2>(false); fft_check::<4, 3>(false) }
    /// quick required unwindset=>::pow:8,compute_powers:18 | FFT / IFFT size 8, input length 8, subgroup, ALL coefficients
    #[unwind(70)]
    fn c07_fft_8_full() { fft_check::<8, 8>(false) }
    /// quick required unwindset=>::pow:8,compute_powers:18 | FFT / IFFT size 8 on a coset (ALL offsets), input lengths 3 (degree-aware) and 5
    #[unwind(70)]
    fn c07_fft_8_coset_short() { fft_check::<8, 3>(true); fft_check::<8, 5>(true) }
    /// thorough required timeout=3000 unwindset=>::pow:8,compute_powers:18 | FFT / IFFT size 16 (the maximal domain of F_17), lengths 16, 7 and 4 on a coset, ALL coefficients
    #[unwind(70)]
    fn c07_fft_16() { fft_check::<16, 16>(true); fft_check::<16, 7>(true); fft_check::<16, 4>(true) }
    /// quick required unwindset=>::pow:8,compute_powers:18 | evaluate_all_lagrange_coefficients on a coset of size 4: ALL offsets, ALL tau (inside the coset — the special branch — and outside), ALL polynomials of degree < 4: sum L_i(tau) p(x_i) = p(tau)
    #[unwind(70)]
    fn c07_lagrange_4() { lagrange::<4>() }
    /// thorough required timeout=3000 unwindset=>::pow:8,compute_powers:18 | Lagrange coefficients on a coset of size 8
    #[unwind(70)]
    fn c07_lagrange_8() { lagrange::<8>() }
}
