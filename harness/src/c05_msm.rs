//! C05 — multi-scalar multiplication equals sum k_i * P_i for every shape and history.
//! The real generic VariableBaseMSM / Pippenger code over the free abelian group Z^L (toygroup.rs) with the unit vectors
//! as bases: the result must be exactly the vector of integer scalars.  Both NEGATION_IS_CHEAP flavours are instantiated:
//! `true` reaches msm_bigint_wnaf + make_digits, `false` reaches the plain-bucket msm_bigint.
use crate::fields::*;
use crate::sym::{any, assume};
use crate::toygroup::Z;
use ark_ec::scalar_mul::variable_base::{ChunkedPippenger, HashMapPippenger, VariableBaseMSM};
use ark_ff::{BigInteger, PrimeField, Zero};
use ark_std::vec::Vec;

fn scalars<F: Tiny, const L: usize>() -> ([u32; L], [F; L]) {
    let v: [u32; L] = core::array::from_fn(|_| {
        let x: u32 = any();
        let x = x & F::MASK;
        assume(x < F::P);
        x
    });
    (v, core::array::from_fn(|i| F::enc(v[i])))
}
fn units<F: PrimeField, const C: bool, const L: usize>() -> [Z<F, C, L>; L] {
    core::array::from_fn(|i| Z::unit(i))
}
fn is_vec<F: PrimeField, const C: bool, const L: usize>(r: &Z<F, C, L>, v: &[u32; L], upto: usize) -> bool {
    let mut ok = true;
    let mut i = 0;
    while i < L {
        ok &= r.0[i] == if i < upto { v[i] as i64 } else { 0 };
        i += 1;
    }
    ok
}

/// msm / msm_unchecked / msm_bigint on L bases e_0..e_{L-1} and ALL scalar vectors of the field
fn msm_all<F: Tiny, const C: bool, const L: usize>() {
    let (v, k) = scalars::<F, L>();
    let bases = units::<F, C, L>();
    let r = <Z<F, C, L> as VariableBaseMSM>::msm(&bases, &k);
    crate::cover!(L == 0 || v[0] == F::P - 1);
    crate::cover!(L == 0 || v[0] == 1);
    let ok = match r {
        Ok(x) => is_vec(&x, &v, L),
        Err(_) => false,
    };
    assert!(ok);
}
fn msm_bigint_all<F: Tiny, const C: bool, const L: usize>() {
    let (v, k) = scalars::<F, L>();
    let bases = units::<F, C, L>();
    let big: [F::BigInt; L] = core::array::from_fn(|i| F::BigInt::from(v[i] as u64));
    let r = <Z<F, C, L> as VariableBaseMSM>::msm_bigint(&bases, &big);
    let u = <Z<F, C, L> as VariableBaseMSM>::msm_unchecked(&bases, &k);
    crate::cover!(L == 0 || v[L - 1] > 1);
    let ok = is_vec(&r, &v, L) && is_vec(&u, &v, L);
    assert!(ok);
}
/// mismatched lengths: msm reports min(len), msm_unchecked truncates to the shorter input
fn msm_lengths<F: Tiny, const C: bool, const LB: usize, const LS: usize>() {
    let (v, k) = scalars::<F, 3>();
    let bases = units::<F, C, 3>();
    let r = <Z<F, C, 3> as VariableBaseMSM>::msm(&bases[..LB], &k[..LS]);
    let u = <Z<F, C, 3> as VariableBaseMSM>::msm_unchecked(&bases[..LB], &k[..LS]);
    let m = if LB < LS { LB } else { LS };
    crate::cover!(v[0] > 1);
    let ok = match r {
        Ok(x) => LB == LS && is_vec(&x, &v, m),
        Err(e) => LB != LS && e == m,
    } && is_vec(&u, &v, m);
    assert!(ok);
}
/// repeated and identity bases: bases (e0, e0, 0) -> result (k0 + k1) e0
fn msm_repeated<F: Tiny, const C: bool>() {
    let (v, k) = scalars::<F, 3>();
    let bases = [Z::<F, C, 1>::unit(0), Z::<F, C, 1>::unit(0), Z::<F, C, 1>::zero()];
    let r = <Z<F, C, 1> as VariableBaseMSM>::msm(&bases, &k);
    crate::cover!(v[0] + v[1] >= F::P);
    let ok = matches!(r, Ok(x) if x.0[0] == (v[0] + v[1]) as i64);
    assert!(ok);
}
/// ChunkedPippenger: L add calls with buffer size B, then finalize
fn chunked<F: Tiny, const C: bool, const L: usize>(b: usize) {
    let (v, _k) = scalars::<F, L>();
    let bases = units::<F, C, L>();
    let mut p = ChunkedPippenger::<Z<F, C, L>>::with_size(b);
    let mut i = 0;
    while i < L {
        p.add(bases[i], F::BigInt::from(v[i] as u64));
        i += 1;
    }
    let r = p.finalize();
    crate::cover!(v[0] > 1 && v[L - 1] > 1);
    let ok = is_vec(&r, &v, L);
    assert!(ok);
}
/// HashMapPippenger with concrete base patterns (keeps the hash map shape concrete) and symbolic scalars
fn hashmap_pip<F: Tiny, const C: bool>(b: usize, pattern: [usize; 3]) {
    let (v, k) = scalars::<F, 3>();
    let mut p = HashMapPippenger::<Z<F, C, 2>>::new(b);
    let mut want = [0i64; 2];
    let mut i = 0;
    while i < 3 {
        // pattern entry 2 = identity base
        let base = if pattern[i] == 2 { Z::<F, C, 2>::zero() } else { Z::<F, C, 2>::unit(pattern[i]) };
        p.add(base, k[i]);
        if pattern[i] < 2 {
            want[pattern[i]] += v[i] as i64;
        }
        i += 1;
    }
    let r = p.finalize();
    crate::cover!(v[0] + v[1] >= F::P);
    // merged scalars are added in the scalar field: k*e is only defined mod p for the merged entries, so compare mod p
    let mut ok = true;
    let mut j = 0;
    while j < 2 {
        ok &= (r.0[j] - want[j]) % (F::P as i64) == 0 && r.0[j] >= 0;
        j += 1;
    }
    assert!(ok);
}

crate::harnesses! { REG;
    /// quick required unwindset=^std::vec::Vec::<i64>::extend_desugared:4,^<std::iter::adapters::flatten::FlattenCompat:4,^ark_ec::scalar_mul::variable_base::msm_bigint_wnaf:4,^<std::ops::Range<usize>:4 | signed-digit MSM (NEGATION_IS_CHEAP = true: msm_bigint_wnaf + make_digits) over Z^1, scalar field F_13: msm on ONE base for ALL scalars
    #[unwind(10)]
    fn c05_wnaf_len1_f13() { msm_all::<DF13, true, 1>() }
    /// quick required | plain-bucket MSM (NEGATION_IS_CHEAP = false: msm_bigint) over Z^1, scalar field F_13: msm on ONE base for ALL scalars (k = 1 shortcut included)
    #[unwind(10)]
    fn c05_plain_len1_f13() { msm_all::<DF13, false, 1>() }
    /// quick required unwindset=^std::vec::Vec::<i64>::extend_desugared:6,^<std::iter::adapters::flatten::FlattenCompat:4,^ark_ec::scalar_mul::variable_base::msm_bigint_wnaf:4,^<std::ops::Range<usize>:4 | signed-digit MSM (NEGATION_IS_CHEAP = true: msm_bigint_wnaf + make_digits) over Z^2, F_13: msm for ALL scalar pairs
    #[unwind(10)]
    fn c05_wnaf_len2_f13() { msm_all::<DF13, true, 2>() }
    /// quick required unwindset=^std::vec::Vec::<i64>::extend_desugared:4,^<std::iter::adapters::flatten::FlattenCompat:4,^ark_ec::scalar_mul::variable_base::msm_bigint_wnaf:4,^<std::ops::Range<usize>:4 | signed-digit MSM over Z^1, scalar field F_61 (6 bits = 2 full windows of 3: the carry folded into the top digit reaches 2^c for k = 60, so the last bucket is used): ALL scalars
    #[unwind(10)]
    fn c05_wnaf_len1_f61() { msm_all::<DF61, true, 1>() }
    /// quick required | plain-bucket MSM (NEGATION_IS_CHEAP = false: msm_bigint) over Z^2, F_13: msm for ALL scalar pairs
    #[unwind(10)]
    fn c05_plain_len2_f13() { msm_all::<DF13, false, 2>() }
    /// thorough attempt timeout=3000 mem=30 unwindset=^std::vec::Vec::<i64>::extend_desugared:3,^<std::iter::adapters::flatten::FlattenCompat:3,^ark_ec::scalar_mul::variable_base::msm_bigint_wnaf:3,^<std::ops::Range<usize>:4 | empty input, signed-digit flavour: msm of zero bases and zero scalars is the identity
    #[unwind(10)]
    fn c05_len0_wnaf() { msm_all::<DF13, true, 0>() }
    /// thorough attempt timeout=3000 mem=30 | empty input, plain-bucket flavour: msm of zero bases and zero scalars is the identity
    #[unwind(10)]
    fn c05_len0_plain() { msm_all::<DF13, false, 0>() }
    /// thorough required unwindset=^std::vec::Vec::<i64>::extend_desugared:8,^<std::iter::adapters::flatten::FlattenCompat:5,^ark_ec::scalar_mul::variable_base::msm_bigint_wnaf:5,^<std::ops::Range<usize>:4 timeout=2400 mem=30 | signed-digit MSM (NEGATION_IS_CHEAP = true: msm_bigint_wnaf + make_digits) over Z^3, F_13: ALL scalar triples
    #[unwind(10)]
    fn c05_wnaf_len3_f13() { msm_all::<DF13, true, 3>() }
    /// thorough required timeout=2400 | plain-bucket MSM (NEGATION_IS_CHEAP = false: msm_bigint) over Z^3, F_13: ALL scalar triples
    #[unwind(10)]
    fn c05_plain_len3_f13() { msm_all::<DF13, false, 3>() }
    /// thorough required unwindset=^std::vec::Vec::<i64>::extend_desugared:8,^<std::iter::adapters::flatten::FlattenCompat:4,^ark_ec::scalar_mul::variable_base::msm_bigint_wnaf:4,^<std::ops::Range<usize>:5 timeout=2400 mem=30 | signed-digit MSM (NEGATION_IS_CHEAP = true: msm_bigint_wnaf + make_digits) over Z^2, scalar field F_127 (7 bits, 3 windows): ALL scalar pairs
    #[unwind(12)]
    fn c05_wnaf_len2_f127() { msm_all::<DF127, true, 2>() }
    /// thorough required timeout=2400 | plain-bucket MSM (NEGATION_IS_CHEAP = false: msm_bigint) over Z^2, scalar field F_127: ALL scalar pairs
    #[unwind(12)]
    fn c05_plain_len2_f127() { msm_all::<DF127, false, 2>() }
    /// thorough attempt unwindset=^std::vec::Vec::<i64>::extend_desugared:8,^<std::iter::adapters::flatten::FlattenCompat:4,^ark_ec::scalar_mul::variable_base::msm_bigint_wnaf:4,^<std::ops::Range<usize>:8 timeout=3000 mem=30 | signed-digit MSM (NEGATION_IS_CHEAP = true: msm_bigint_wnaf + make_digits) over Z^1, scalar field F_65521 (16 bits, 6 windows; modulus close to 2^16 so the top digit carries): ALL scalars
    #[unwind(14)]
    fn c05_wnaf_len1_f65521() { msm_all::<DF65521, true, 1>() }
    /// thorough attempt timeout=3000 mem=30 | plain-bucket MSM (NEGATION_IS_CHEAP = false: msm_bigint) over Z^1, scalar field F_65521: ALL scalars
    #[unwind(14)]
    fn c05_plain_len1_f65521() { msm_all::<DF65521, false, 1>() }
    /// thorough required timeout=2400 unwindset=^std::vec::Vec::<i64>::extend_desugared:6,^<std::iter::adapters::flatten::FlattenCompat:4,^ark_ec::scalar_mul::variable_base::msm_bigint_wnaf:4,^<std::ops::Range<usize>:4 | msm_bigint (raw big integers) and msm_unchecked over Z^2, F_13, signed-digit flavour: ALL scalar pairs
    #[unwind(10)]
    fn c05_bigint_unchecked_wnaf() { msm_bigint_all::<DF13, true, 2>() }
    /// quick required | msm_bigint (raw big integers) and msm_unchecked over Z^2, F_13, plain-bucket flavour: ALL scalar pairs
    #[unwind(10)]
    fn c05_bigint_unchecked_plain() { msm_bigint_all::<DF13, false, 2>() }
    /// quick required unwindset=^std::vec::Vec::<i64>::extend_desugared:4,^<std::iter::adapters::flatten::FlattenCompat:4,^ark_ec::scalar_mul::variable_base::msm_bigint_wnaf:4,^<std::ops::Range<usize>:4 | mismatched lengths (1 base, 2 scalars): msm returns Err(1), msm_unchecked truncates to the shorter input; signed-digit flavour, ALL scalars
    #[unwind(10)]
    fn c05_lengths_wnaf_12() { msm_lengths::<DF13, true, 1, 2>() }
    /// quick required unwindset=^std::vec::Vec::<i64>::extend_desugared:4,^<std::iter::adapters::flatten::FlattenCompat:4,^ark_ec::scalar_mul::variable_base::msm_bigint_wnaf:4,^<std::ops::Range<usize>:4 | mismatched lengths (2 bases, 1 scalar): Err(1) / truncation; signed-digit flavour, ALL scalars
    #[unwind(10)]
    fn c05_lengths_wnaf_21() { msm_lengths::<DF13, true, 2, 1>() }
    /// thorough required unwindset=^std::vec::Vec::<i64>::extend_desugared:6,^<std::iter::adapters::flatten::FlattenCompat:4,^ark_ec::scalar_mul::variable_base::msm_bigint_wnaf:4,^<std::ops::Range<usize>:4 timeout=2400 | mismatched lengths (3,2) and (0,1); signed-digit flavour
    #[unwind(10)]
    fn c05_lengths_wnaf_more() { msm_lengths::<DF13, true, 3, 2>(); msm_lengths::<DF13, true, 0, 1>() }
    /// quick required | mismatched lengths, plain-bucket flavour: {(1,2),(2,1),(2,2)}
    #[unwind(10)]
    fn c05_lengths_plain() { msm_lengths::<DF13, false, 1, 2>(); msm_lengths::<DF13, false, 2, 1>(); msm_lengths::<DF13, false, 2, 2>() }
    /// quick required unwindset=^std::vec::Vec::<i64>::extend_desugared:8,^<std::iter::adapters::flatten::FlattenCompat:5,^ark_ec::scalar_mul::variable_base::msm_bigint_wnaf:5,^<std::ops::Range<usize>:4 | repeated and identity bases (e0, e0, 0), ALL scalar triples of F_13, signed-digit flavour: result (k0+k1) e0
    #[unwind(10)]
    fn c05_repeated_bases_wnaf() { msm_repeated::<DF13, true>() }
    /// quick required | repeated and identity bases (e0, e0, 0), ALL scalar triples of F_13, plain-bucket flavour
    #[unwind(10)]
    fn c05_repeated_bases_plain() { msm_repeated::<DF13, false>() }
    /// thorough attempt timeout=3000 mem=30 unwindset=^std::vec::Vec::<i64>::extend_desugared:6,^<std::iter::adapters::flatten::FlattenCompat:4,^ark_ec::scalar_mul::variable_base::msm_bigint_wnaf:4,^<std::ops::Range<usize>:4 | ChunkedPippenger, signed-digit flavour: 2 add calls then finalize, buffer size 1 (flush inside every add), ALL scalars of F_13
    #[unwind(10)]
    fn c05_chunked_wnaf_b1() { chunked::<DF13, true, 2>(1) }
    /// quick required unwindset=^std::vec::Vec::<i64>::extend_desugared:6,^<std::iter::adapters::flatten::FlattenCompat:4,^ark_ec::scalar_mul::variable_base::msm_bigint_wnaf:4,^<std::ops::Range<usize>:4 | ChunkedPippenger, signed-digit flavour: 2 add calls then finalize, buffer size 2 (flush inside the second add), ALL scalars of F_13
    #[unwind(10)]
    fn c05_chunked_wnaf_b2() { chunked::<DF13, true, 2>(2) }
    /// quick required unwindset=^std::vec::Vec::<i64>::extend_desugared:6,^<std::iter::adapters::flatten::FlattenCompat:4,^ark_ec::scalar_mul::variable_base::msm_bigint_wnaf:4,^<std::ops::Range<usize>:4 | ChunkedPippenger, signed-digit flavour: 2 add calls then finalize, buffer size 3 (flush only at finalize), ALL scalars of F_13
    #[unwind(10)]
    fn c05_chunked_wnaf_b3() { chunked::<DF13, true, 2>(3) }
    /// thorough required unwindset=^std::vec::Vec::<i64>::extend_desugared:6,^<std::iter::adapters::flatten::FlattenCompat:4,^ark_ec::scalar_mul::variable_base::msm_bigint_wnaf:4,^<std::ops::Range<usize>:4 timeout=2400 mem=30 | ChunkedPippenger, signed-digit flavour: 4 add calls, buffer size 2 (two flushes inside add: earlier partial results must be kept), ALL scalars of F_13
    #[unwind(10)]
    fn c05_chunked_wnaf_4adds() { chunked::<DF13, true, 4>(2) }
    /// quick required | ChunkedPippenger, plain-bucket flavour: 3 add calls, buffer sizes 1, 2, 4, ALL scalars of F_13
    #[unwind(10)]
    fn c05_chunked_plain() { chunked::<DF13, false, 3>(1); chunked::<DF13, false, 3>(2); chunked::<DF13, false, 3>(4) }
    /// quick required | ChunkedPippenger, plain-bucket flavour: 4 add calls, buffer size 2 (two flushes inside add), ALL scalars of F_13
    #[unwind(10)]
    fn c05_chunked_plain_4adds() { chunked::<DF13, false, 4>(2) }
    /// thorough attempt unwindset=^std::vec::Vec::<i64>::extend_desugared:8,^<std::iter::adapters::flatten::FlattenCompat:5,^ark_ec::scalar_mul::variable_base::msm_bigint_wnaf:5,^<std::ops::Range<usize>:4 timeout=3000 mem=30 | HashMapPippenger (concrete base patterns: distinct / repeated / identity; symbolic scalars), buffer sizes 1, 2, 3
    #[unwind(12)]
    fn c05_hashmap_pippenger() { hashmap_pip::<DF13, true>(2, [0, 1, 0]); hashmap_pip::<DF13, true>(1, [0, 0, 2]); hashmap_pip::<DF13, true>(3, [0, 1, 2]) }
}
