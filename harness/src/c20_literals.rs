//! C20 — compile-time literals denote the number that is written.
//! (a) the const constructors behind the literal macros (Fp::new / from_sign_and_limbs / const_neg / const CIOS) are ordinary
//!     functions: decided for ALL limb values and both signs against the run-time path / reference;
//! (b) literal text -> limbs happens inside rustc (proc macro): only a fixed grid of literals is compared (ground, no free input).
use crate::fields::*;
use crate::refm;
use crate::sym::{any, assume};
use ark_ff::{BigInt, BigInteger, Fp, MontFp, PrimeField, Zero};

fn mulmod(a: u32, b: u32, p: u32) -> u32 {
    (((a * (b >> 8)) % p) * 256 + a * (b & 0xff)) % p
}
/// e mod p through 16-bit pieces in 32-bit arithmetic (p < 2^17)
fn mod_p(e: u64, p: u32) -> u32 {
    let t16 = (1u32 << 16) % p;
    let mut acc = 0u32;
    let mut i = 4;
    while i > 0 {
        i -= 1;
        acc = (mulmod(acc, t16, p) + (((e >> (16 * i)) & 0xffff) as u32 % p)) % p;
    }
    acc
}

macro_rules! tiny_sign_limbs {
    ($f:ty, $mask:expr) => {{
        let v: u64 = any();
        let v = v & $mask;
        let pos: bool = any();
        let x = <$f>::from_sign_and_limbs(pos, &[v]);
        let y = <$f>::new(BigInt::new([v]));
        let z = <$f>::from_sign_and_limbs(pos, &[]);
        let m = mod_p(v, <$f as Tiny>::P);
        let want = if pos { m } else { (<$f as Tiny>::P - m) % <$f as Tiny>::P };
        crate::cover!(v >= <$f as Tiny>::P as u64 && !pos && m != 0);
        crate::cover!(v > 0x7f && pos);
        x.limb() < <$f as Tiny>::P as u64 && x.val() == want && y.val() == m && z.is_zero()
    }};
}
/// N = 1 full width: the const constructor equals the textbook Montgomery product v * R2 * R^-1 (any v: u64, also v >= p)
macro_rules! wide1_new {
    ($f:ty, $r2:expr) => {{
        let v: u64 = any();
        let x = <$f>::new(BigInt::new([v]));
        let want = refm::mont_mul_ref::<1, 3>(&[v], &[$r2], &<$f as Wide<1>>::P, <$f as Wide<1>>::NINV);
        crate::cover!(v >= <$f as Wide<1>>::P[0]);
        x.limbs()[0] == want[0] || v == 0
    }};
}

crate::harnesses! { REG;
    /// quick required | F_13 (derive): Fp::from_sign_and_limbs(sign, [v]) and Fp::new for ALL v < 2^8 (values >= p and multiples of p included) and both signs == +-(v mod p), canonical; empty limb slice == 0 (full 64-bit v: see the W harnesses)
    #[unwind(10)]
    fn c20_const_ctor_f13() { let ok = tiny_sign_limbs!(DF13, 0xff); assert!(ok); }
    /// quick required | F_251 (hand-written config: trait-default const path): from_sign_and_limbs / new for ALL v < 2^10, both signs
    #[unwind(10)]
    fn c20_const_ctor_hf251() { let ok = tiny_sign_limbs!(HF251, 0x3ff); assert!(ok); }
    /// thorough attempt timeout=3000 | F_65537, F_7, F_13: from_sign_and_limbs / new for ALL v < 2^20, both signs
    #[unwind(10)]
    fn c20_const_ctor_more() { let ok = tiny_sign_limbs!(DF65537, 0xf_ffff) && tiny_sign_limbs!(HF7, 0xf_ffff) && tiny_sign_limbs!(DF13, 0xf_ffff); assert!(ok); }
    /// quick required engine=W | 2^64-59 (1 limb, no spare bit): const Fp::new(v) == textbook Montgomery product v*R2*R^-1 for ALL v: u64 (cvc5 word level)
    #[unwind(6)]
    fn c20_new_w64a() { let ok = wide1_new!(DW64a, <DW64aConfig as ark_ff::MontConfig<1>>::R2.0[0]); assert!(ok); }
    /// quick required engine=W | Goldilocks, hand-written config: const Fp::new(v) for ALL v: u64
    #[unwind(6)]
    fn c20_new_hgold() { let ok = wide1_new!(HGold, <HGoldConfig as ark_ff::MontConfig<1>>::R2.0[0]); assert!(ok); }
    /// quick required engine=W | F_13 (derive, tiny modulus in one 64-bit limb): const Fp::new(v) == textbook Montgomery product v*R2*R^-1 for ALL v: u64 (cvc5 word level)
    #[unwind(6)]
    fn c20_new_f13_w() {
        let v: u64 = any();
        let x = DF13::new(BigInt::new([v]));
        let want = refm::mont_mul_ref::<1, 3>(&[v], &[<DF13Config as ark_ff::MontConfig<1>>::R2.0[0]], &[13], <DF13Config as ark_ff::MontConfig<1>>::INV);
        crate::cover!(v > u32::MAX as u64);
        let ok = x.limb() == want[0] || v == 0;
        assert!(ok);
    }
    /// quick required engine=W | 2^63-25 (spare bit): const Fp::new(v) for ALL v: u64
    #[unwind(6)]
    fn c20_new_w63() { let ok = wide1_new!(DW63, <DW63Config as ark_ff::MontConfig<1>>::R2.0[0]); assert!(ok); }
    /// quick required | literal grid (ground: no free input; the literal parser runs inside rustc): MontFp!/BigInt! in radix 10/16/8/2, with and without minus sign, leading zeros, values 0, 1, p-1, p, p+1 for F_13, F_251, 2^64-59, 2^127-1, BLS12-381 Fr compared with run-time values
    #[unwind(40)]
    fn c20_literal_grid() {
        let one13: DF13 = MontFp!("1");
        let m1_13: DF13 = MontFp!("-1");
        let p13: DF13 = MontFp!("13");
        let pp13: DF13 = MontFp!("0x0e");
        let b13: DF13 = MontFp!("0b1100");
        let o13: DF13 = MontFp!("0o14");
        let lz: DF13 = MontFp!("0007");
        let lz2: DF13 = MontFp!("0012");
        let lz3: HF251 = MontFp!("-00100");
        let ux: HF251 = MontFp!("0XFA");
        let ub: DF13 = MontFp!("0B1100");
        let lzb: BigInt<1> = ark_ff::BigInt!("00077");
        let h251: HF251 = MontFp!("0xfa");
        let n251: HF251 = MontFp!("-0xfb");
        let w: DW64a = MontFp!("18446744073709551556");
        let wm: DW64a = MontFp!("-1");
        let m127: DM127 = MontFp!("170141183460469231731687303715884105726");
        let fr: DFr381 = MontFp!("-1");
        let frp: DFr381 = MontFp!("52435875175126190479447740508185965837690552500527637822603658699938581184512");
        let b1: BigInt<1> = ark_ff::BigInt!("18446744073709551615");
        let b2: BigInt<2> = ark_ff::BigInt!("0x10000000000000000");
        let b4: BigInt<4> = ark_ff::BigInt!("115792089237316195423570985008687907853269984665640564039457584007913129639935");
        let b4h: BigInt<4> = ark_ff::BigInt!("0xffffffffffffffffffffffffffffffffffffffffffffffffffffffffffffffff");
        crate::cover!(one13.val() == 1);
        let mut ok = one13.val() == 1 && m1_13.val() == 12 && p13.val() == 0 && pp13.val() == 1 && b13.val() == 12 && o13.val() == 12 && lz.val() == 7;
        ok &= h251.val() == 250 && n251.val() == 0;
        // leading zeros do not change the radix; upper-case radix prefixes are accepted (0O.. is left out: a parser that rejects it fails the BUILD, which is not a reportable violation)
        ok &= lz2.val() == 12 && lz3.val() == 151 && ux.val() == 250 && ub.val() == 12 && lzb.0[0] == 77;
        ok &= w == -DW64a::from(1u64) && wm == w && m127 == -DM127::from(1u64) && fr == frp && fr == -DFr381::from(1u64);
        ok &= b1.0[0] == u64::MAX && b2.0 == [0, 1] && b4 == b4h && b4.0 == [u64::MAX; 4];
        assert!(ok);
    }
}
