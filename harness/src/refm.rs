//! Independent reference arithmetic on limb arrays (no ark_* code).

// textbook SOS Montgomery multiplication on N limbs, sharing only the partial products a_i*b_j
pub fn mont_mul_ref<const N: usize, const M: usize>(a: &[u64; N], b: &[u64; N], p: &[u64; N], ninv: u64) -> [u64; N] {
    // M = 2N+1
    let mut t = [0u64; M];
    let mut i = 0;
    while i < N {
        let mut carry: u128 = 0;
        let mut j = 0;
        while j < N {
            let cur = (t[i + j] as u128) + (a[i] as u128) * (b[j] as u128) + carry;
            t[i + j] = cur as u64;
            carry = cur >> 64;
            j += 1;
        }
        t[i + N] = carry as u64;
        i += 1;
    }
    let mut i = 0;
    while i < N {
        let m = t[i].wrapping_mul(ninv);
        let mut carry: u128 = 0;
        let mut j = 0;
        while j < N {
            let cur = (t[i + j] as u128) + (m as u128) * (p[j] as u128) + carry;
            t[i + j] = cur as u64;
            carry = cur >> 64;
            j += 1;
        }
        // propagate
        let mut k = i + N;
        while k < M {
            let cur = (t[k] as u128) + carry;
            t[k] = cur as u64;
            carry = cur >> 64;
            k += 1;
        }
        i += 1;
    }
    let mut r = [0u64; N];
    let mut i = 0;
    while i < N { r[i] = t[N + i]; i += 1; }
    let top = t[2 * N];
    // r >= p ?
    let mut ge = true;
    let mut i = N;
    while i > 0 { i -= 1; if r[i] < p[i] { ge = false; break; } if r[i] > p[i] { break; } }
    if top != 0 || ge {
        let mut borrow = 0u64;
        let mut i = 0;
        while i < N {
            let (d1, b1) = r[i].overflowing_sub(p[i]);
            let (d2, b2) = d1.overflowing_sub(borrow);
            r[i] = d2; borrow = (b1 | b2) as u64;
            i += 1;
        }
    }
    r
}

// textbook CIOS (Koc, Acar, Kaliski 1996): t has N+2 words
pub fn mont_mul_cios<const N: usize, const M: usize>(a: &[u64; N], b: &[u64; N], p: &[u64; N], ninv: u64) -> [u64; N] {
    // M = N+2
    let mut t = [0u64; M];
    let mut i = 0;
    while i < N {
        let mut c: u128 = 0;
        let mut j = 0;
        while j < N {
            let cur = (t[j] as u128) + (a[j] as u128) * (b[i] as u128) + c;
            t[j] = cur as u64; c = cur >> 64; j += 1;
        }
        let cur = (t[N] as u128) + c;
        t[N] = cur as u64; t[N + 1] = (cur >> 64) as u64;
        let m = t[0].wrapping_mul(ninv);
        let cur = (t[0] as u128) + (m as u128) * (p[0] as u128);
        let mut c: u128 = cur >> 64;
        let mut j = 1;
        while j < N {
            let cur = (t[j] as u128) + (m as u128) * (p[j] as u128) + c;
            t[j - 1] = cur as u64; c = cur >> 64; j += 1;
        }
        let cur = (t[N] as u128) + c;
        t[N - 1] = cur as u64;
        t[N] = t[N + 1] + ((cur >> 64) as u64);
        i += 1;
    }
    let mut r = [0u64; N];
    let mut i = 0;
    while i < N { r[i] = t[i]; i += 1; }
    let top = t[N];
    let mut ge = true;
    let mut i = N;
    while i > 0 { i -= 1; if r[i] < p[i] { ge = false; break; } if r[i] > p[i] { break; } }
    if top != 0 || ge {
        let mut borrow = 0u64;
        let mut i = 0;
        while i < N {
            let (d1, b1) = r[i].overflowing_sub(p[i]);
            let (d2, b2) = d1.overflowing_sub(borrow);
            r[i] = d2; borrow = (b1 | b2) as u64;
            i += 1;
        }
    }
    r
}
pub fn lt<const N: usize>(a: &[u64; N], b: &[u64; N]) -> bool {
    let mut i = N;
    while i > 0 { i -= 1; if a[i] < b[i] { return true; } if a[i] > b[i] { return false; } }
    false
}

/// a + b on N limbs with carry-out
pub fn add_n<const N: usize>(a: &[u64; N], b: &[u64; N]) -> ([u64; N], bool) {
    let mut r = [0u64; N];
    let mut c = 0u128;
    let mut i = 0;
    while i < N {
        let s = a[i] as u128 + b[i] as u128 + c;
        r[i] = s as u64;
        c = s >> 64;
        i += 1;
    }
    (r, c != 0)
}
/// a - b on N limbs with borrow-out
pub fn sub_n<const N: usize>(a: &[u64; N], b: &[u64; N]) -> ([u64; N], bool) {
    let mut r = [0u64; N];
    let mut bo = 0u64;
    let mut i = 0;
    while i < N {
        let (d1, b1) = a[i].overflowing_sub(b[i]);
        let (d2, b2) = d1.overflowing_sub(bo);
        r[i] = d2;
        bo = (b1 | b2) as u64;
        i += 1;
    }
    (r, bo != 0)
}
pub fn eq_n<const N: usize>(a: &[u64; N], b: &[u64; N]) -> bool {
    let mut ok = true;
    let mut i = 0;
    while i < N {
        ok &= a[i] == b[i];
        i += 1;
    }
    ok
}
pub fn is_zero_n<const N: usize>(a: &[u64; N]) -> bool {
    let mut ok = true;
    let mut i = 0;
    while i < N {
        ok &= a[i] == 0;
        i += 1;
    }
    ok
}
/// (a + b) mod p for a, b < p, by definition: wide sum, subtract p iff sum >= p
pub fn addmod<const N: usize>(a: &[u64; N], b: &[u64; N], p: &[u64; N]) -> [u64; N] {
    let (s, c) = add_n(a, b);
    if c || !lt(&s, p) {
        sub_n(&s, p).0
    } else {
        s
    }
}
/// (a - b) mod p for a, b < p
pub fn submod<const N: usize>(a: &[u64; N], b: &[u64; N], p: &[u64; N]) -> [u64; N] {
    let (d, bo) = sub_n(a, b);
    if bo {
        add_n(&d, p).0
    } else {
        d
    }
}
