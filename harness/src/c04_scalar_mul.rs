//! C04 — every scalar-multiplication path computes k*P.
//! (a) real SW / TE model code on toy curves: oracle = brute-force scalar-multiple table;
//! (b) the generic algorithms (wNAF, fixed-base batch multiplication) over the free group Z^1 with base e_0: the result must be
//!     the integer k itself.
use crate::c03_curves::*;
use crate::fields::*;
use crate::sym::{any, assume};
use crate::toy_curves::*;
use crate::toygroup::Z;
use ark_ec::{
    scalar_mul::{wnaf::WnafContext, BatchMulPreprocessing, ScalarMul},
    short_weierstrass::{self as sw, SWCurveConfig},
    twisted_edwards::{self as te, TECurveConfig},
    AffineRepr, CurveConfig, PrimeGroup,
};
use ark_ff::{PrimeField, Zero};
use ark_std::vec::Vec;

fn small_k(bits: u32) -> u32 {
    let k: u32 = any();
    let k = k & ((1 << bits) - 1);
    k
}

/// mul_bigint on affine and projective inputs with the raw integer k given as a 1-limb and as a 2-limb slice (leading zero limb)
fn sw_mul_bigint<C: SWCurveConfig + Toy>(bits: u32, affine: bool, two_limbs: bool)
where
    C::BaseField: Tiny,
{
    let i = any_index::<C>();
    let k = small_k(bits);
    let a = sw_affine::<C>(i);
    let p = sw_proj::<C>(i, any_nz(C::T.p));
    let want = C::T.mul_ix(k, i);
    let r = match (affine, two_limbs) {
        (true, false) => a.mul_bigint([k as u64]),
        (true, true) => a.mul_bigint([k as u64, 0]),
        (false, false) => p.mul_bigint([k as u64]),
        (false, true) => p.mul_bigint([k as u64, 0]),
    };
    crate::cover!(k >= C::T.r && i != 0);
    crate::cover!(k == 0 && i != 0);
    let ok = sw_is(&r, want);
    assert!(ok);
}
/// P * s and P *= s for s ranging over ALL elements of the scalar field, affine and projective receivers
fn sw_mul_scalar<C: SWCurveConfig + Toy>(affine: bool)
where
    C::BaseField: Tiny,
    C::ScalarField: Tiny,
{
    let i = any_index::<C>();
    let s = <C::ScalarField as Tiny>::any();
    let k = s.val();
    let a = sw_affine::<C>(i);
    let mut p = sw_proj::<C>(i, any_nz(C::T.p));
    let want = C::T.mul_ix(k, i);
    let r = if affine { a * s } else { p *= s; p };
    crate::cover!(k == C::T.r - 1 && i != 0);
    let ok = sw_is(&r, want);
    assert!(ok);
}
fn sw_mul_bits<C: SWCurveConfig + Toy>()
where
    C::BaseField: Tiny,
{
    // mul_bits_be on an explicit MSB-first bit stream of length 0..=5 (leading zeros, the empty stream and all-zero streams included)
    let i = any_index::<C>();
    let bits: [bool; 5] = any();
    let len: usize = any();
    assume(len <= 5);
    let p = sw_proj::<C>(i, any_nz(C::T.p));
    let mut k = 0u32;
    let mut j = 0;
    while j < len {
        k = 2 * k + bits[j] as u32;
        j += 1;
    }
    let r = p.mul_bits_be(bits[..len].iter().copied());
    crate::cover!(len == 0 && i != 0);
    crate::cover!(len == 5 && k > 16);
    let ok = sw_is(&r, C::T.mul_ix(k, i));
    assert!(ok);
}
fn te_mul<C: TECurveConfig + Toy>(bits: u32, which: u8)
where
    C::BaseField: Tiny,
    C::ScalarField: Tiny,
{
    let i = any_index::<C>();
    let k = small_k(bits);
    let s = <C::ScalarField as Tiny>::any();
    let a = te_affine::<C>(i);
    let p = te_proj::<C>(i, any_nz(C::T.p));
    let (r, kk) = match which {
        0 => (a.mul_bigint([k as u64]), k),
        1 => (p.mul_bigint([k as u64, 0]), k),
        _ => (p * s, s.val()),
    };
    crate::cover!(i != 0 && kk >= C::T.r - 1);
    let ok = te_is(&r, C::T.mul_ix(kk, i));
    assert!(ok);
}

// ---- generic algorithms over the free group Z (base e_0 = 1): result must be the integer k ---------------
type G<F> = Z<F, true, 1>;

fn wnaf_mul<F: Tiny>(w: usize) {
    let k = F::any();
    let ctx = WnafContext::new(w);
    let g = G::<F>::unit(0);
    let r = ctx.mul(g, &k);
    crate::cover!(k.val() == F::P - 1);
    let ok = r.0[0] == k.val() as i64;
    assert!(ok);
}
fn wnaf_table<F: Tiny>(w: usize) {
    let k = F::any();
    let ctx = WnafContext::new(w);
    let g = G::<F>::unit(0);
    let table = ctx.table(g);
    let r = ctx.mul_with_table(&table, &k);
    let short = ctx.mul_with_table(&table[..table.len() - 1], &k);
    crate::cover!(k.val() == F::P - 1);
    let ok = table.len() == 1 << (w - 1) && matches!(r, Some(x) if x.0[0] == k.val() as i64) && short.is_none();
    core::mem::forget(table);
    assert!(ok);
}
fn batch_mul<F: Tiny>(num_scalars: usize) {
    let k = F::any();
    let g = G::<F>::unit(0);
    let t = BatchMulPreprocessing::new(g, num_scalars);
    let r = t.batch_mul(&[k]);
    crate::cover!(k.val() == F::P - 1);
    let ok = r.len() == 1 && r[0].0[0] == k.val() as i64;
    core::mem::forget((t, r));
    assert!(ok);
}

crate::harnesses! { REG;
    /// quick required unwindset=sw_double_and_add:6 | SW cofactor 4 (order 20, r = 5): Affine::mul_bigint, 1-limb scalar: ALL points of the curve and ALL raw integers k < 2^4 (k = 0, 1, r-1, k >= r included)
    #[unwind(66)]
    fn c04_sw_mul_bigint_affine() { sw_mul_bigint::<SwCof4>(4, true, false) }
    /// thorough required timeout=3000 unwindset=sw_double_and_add:6 | SW cofactor 4: Projective::mul_bigint, 2-limb scalar with a zero high limb: ALL points (ALL rescalings) and ALL k < 2^4
    #[unwind(130)]
    fn c04_sw_mul_bigint_proj() { sw_mul_bigint::<SwCof4>(4, false, true) }
    /// thorough required timeout=3000 unwindset=sw_double_and_add:8 | SW a=0 (order 19): Affine::mul_bigint (2 limbs) and Projective::mul_bigint (1 limb) for ALL points and ALL k < 2^6
    #[unwind(130)]
    fn c04_sw_mul_bigint_a0() { sw_mul_bigint::<SwA0>(6, true, true); sw_mul_bigint::<SwA0>(6, false, false) }
    /// quick required unwindset=sw_double_and_add:5 | SW cofactor 4: Affine * s for ALL points and ALL scalar-field elements s (F_5)
    #[unwind(66)]
    fn c04_sw_mul_scalar_affine() { sw_mul_scalar::<SwCof4>(true) }
    /// quick required unwindset=sw_double_and_add:5 | SW cofactor 4: Projective *= s for ALL points and ALL s in F_5
    #[unwind(66)]
    fn c04_sw_mul_scalar_proj() { sw_mul_scalar::<SwCof4>(false) }
    /// thorough required timeout=3000 unwindset=sw_double_and_add:7 | SW a=0: Affine * s, Projective *= s for ALL points and ALL s in F_19
    #[unwind(66)]
    fn c04_sw_mul_scalar_a0() { sw_mul_scalar::<SwA0>(true); sw_mul_scalar::<SwA0>(false) }
    /// quick required unwindset=mul_bits_be:7 | SW a != 0: mul_bits_be on ALL MSB-first bit streams of length 0..=5 (empty and all-zero streams included) for ALL points
    #[unwind(12)]
    fn c04_sw_mul_bits_a() { sw_mul_bits::<SwA>() }
    /// quick required unwindset=TECurveConfig>::mul_:6 | TE complete (order 20, r = 5): Affine::mul_bigint (1 limb) for ALL points and ALL k < 2^4
    #[unwind(66)]
    fn c04_te_mul_affine() { te_mul::<TeC>(4, 0) }
    /// quick required unwindset=TECurveConfig>::mul_:6 | TE complete: Projective * s for ALL points (ALL rescalings) and ALL s in F_5
    #[unwind(66)]
    fn c04_te_mul_scalar() { te_mul::<TeC>(4, 2) }
    /// thorough required timeout=3000 unwindset=TECurveConfig>::mul_:6 | TE complete: Projective::mul_bigint with a 2-limb scalar, ALL points, ALL k < 2^4
    #[unwind(130)]
    fn c04_te_mul_proj2() { te_mul::<TeC>(4, 1) }

    /// quick required unwindset=find_wnaf:7,mul_with_table:7 | WnafContext::mul, window 2, over Z with scalar field F_13: ALL scalars k: result == k
    #[unwind(10)]
    fn c04_wnaf_w2_f13() { wnaf_mul::<DF13>(2) }
    /// quick required unwindset=find_wnaf:9,mul_with_table:9 | WnafContext::mul, window 3, scalar field F_61: ALL scalars
    #[unwind(10)]
    fn c04_wnaf_w3_f61() { wnaf_mul::<DF61>(3) }
    /// thorough required timeout=2400 unwindset=find_wnaf:11,mul_with_table:11 | WnafContext::mul, window 4, scalar field F_251: ALL scalars
    #[unwind(10)]
    fn c04_wnaf_w4_f251() { wnaf_mul::<DF251>(4) }
    /// quick required unwindset=find_wnaf:7,mul_with_table:7 | WnafContext::table + mul_with_table, window 3, F_13: ALL scalars; a table that is one entry short yields None
    #[unwind(10)]
    fn c04_wnaf_table_w3_f13() { wnaf_table::<DF13>(3) }
    /// thorough required timeout=2400 unwindset=find_wnaf:9,mul_with_table:9 | WnafContext::table + mul_with_table, window 2 and 4, F_61
    #[unwind(10)]
    fn c04_wnaf_table_more() { wnaf_table::<DF61>(2); wnaf_table::<DF61>(4) }
    /// quick required unwindset=BitIteratorLE:66 | BatchMulPreprocessing::new(g, 1).batch_mul (window 3, shorter last window) over Z, scalar field F_13 (4 bits): ALL scalars
    #[unwind(12)]
    fn c04_batch_mul_f13() { batch_mul::<DF13>(1) }
    /// thorough required timeout=2400 unwindset=BitIteratorLE:66 | BatchMulPreprocessing with 1 and 33 scalars (window rule switch), scalar field F_61 (6 bits = exact multiple of the window)
    #[unwind(40)]
    fn c04_batch_mul_f61() { batch_mul::<DF61>(1); batch_mul::<DF61>(33) }
}
