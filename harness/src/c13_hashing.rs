//! C13 — hash-to-field and hash-to-curve follow RFC 9380 and always land on the curve (toy instantiations).
//! (a) expand_message_xmd / hash_to_field through the public DefaultFieldHasher, generic over the digest, with a toy 4-byte
//!     digest: compared with an independent implementation of RFC 9380 section 5.2 / 5.3.1 over the same digest;
//! (b) simplified SWU on a toy curve for ALL field elements u against the straight-line description of RFC 9380 section 6.6.2.
use crate::c03_curves::*;
use crate::fields::*;
use crate::plain::*;
use crate::sym::{any, assume};
use crate::toy_curves::*;
use crate::towers::*;
use ark_ec::hashing::{curve_maps::swu::SWUMap, map_to_curve_hasher::MapToCurve};
use ark_ff::field_hashers::{DefaultFieldHasher, HashToField};
use ark_ff::{Field, Zero};
use digest::{generic_array::GenericArray, typenum::U4, FixedOutput, FixedOutputReset, OutputSizeUser, Reset, Update};

/// toy digest: 32-bit polynomial rolling hash (position sensitive), 4-byte big-endian output, nominal block size 4
#[derive(Clone)]
pub struct Toy(u32);
impl Default for Toy {
    fn default() -> Self {
        Toy(0x9e3779b9)
    }
}
pub fn toy_step(h: u32, b: u8) -> u32 {
    h.wrapping_mul(31).wrapping_add(b as u32).wrapping_add(1).rotate_left(5)
}
impl Update for Toy {
    fn update(&mut self, data: &[u8]) {
        let mut i = 0;
        while i < data.len() {
            self.0 = toy_step(self.0, data[i]);
            i += 1;
        }
    }
}
impl OutputSizeUser for Toy {
    type OutputSize = U4;
}
impl FixedOutput for Toy {
    fn finalize_into(self, out: &mut GenericArray<u8, U4>) {
        out.copy_from_slice(&self.0.to_be_bytes());
    }
}
impl Reset for Toy {
    fn reset(&mut self) {
        self.0 = 0x9e3779b9;
    }
}
impl FixedOutputReset for Toy {
    fn finalize_into_reset(&mut self, out: &mut GenericArray<u8, U4>) {
        out.copy_from_slice(&self.0.to_be_bytes());
        self.0 = 0x9e3779b9;
    }
}

// ---- independent reference (RFC 9380 5.3.1 expand_message_xmd with H = Toy, b_in_bytes = 4, s_in_bytes = 4) ----
fn h_bytes(parts: &[&[u8]]) -> [u8; 4] {
    let mut h = 0x9e3779b9u32;
    let mut k = 0;
    while k < parts.len() {
        let mut i = 0;
        while i < parts[k].len() {
            h = toy_step(h, parts[k][i]);
            i += 1;
        }
        k += 1;
    }
    h.to_be_bytes()
}
/// returns the first 8 uniform bytes (len_in_bytes = 8 -> ell = 2)
fn ref_expand8(msg: &[u8], dst: &[u8]) -> [u8; 8] {
    let dst_len = [dst.len() as u8];
    let z_pad = [0u8; 4];
    let l_i_b = [0u8, 8u8];
    let b0 = h_bytes(&[&z_pad, msg, &l_i_b, &[0u8], dst, &dst_len]);
    let b1 = h_bytes(&[&b0, &[1u8], dst, &dst_len]);
    let x = [b0[0] ^ b1[0], b0[1] ^ b1[1], b0[2] ^ b1[2], b0[3] ^ b1[3]];
    let b2 = h_bytes(&[&x, &[2u8], dst, &dst_len]);
    [b1[0], b1[1], b1[2], b1[3], b2[0], b2[1], b2[2], b2[3]]
}
fn os2ip_mod(b: &[u8], p: u32) -> u32 {
    let mut acc = 0u32;
    let mut i = 0;
    while i < b.len() {
        acc = (acc * 256 + b[i] as u32) % p;
        i += 1;
    }
    acc
}

/// hash_to_field::<2> over F_13 with SEC_PARAM = 28 (L = ceil((4+28)/8) = 4 bytes per element = toy block size): ALL messages of length ML and DSTs of length DL
fn h2f_prime<const ML: usize, const DL: usize>() {
    let msg: [u8; ML] = any();
    let dst: [u8; DL] = any();
    let hasher = <DefaultFieldHasher<Toy, 28> as HashToField<PF13>>::new(&dst);
    let out: [PF13; 2] = hasher.hash_to_field::<2>(&msg);
    let u = ref_expand8(&msg, &dst);
    crate::cover!(ML == 0 || msg[ML - 1] == 0x7f);
    let ok = out[0].val() == os2ip_mod(&u[0..4], 13) && out[1].val() == os2ip_mod(&u[4..8], 13);
    core::mem::forget(hasher);
    assert!(ok);
}
/// DST length boundary (RFC 9380 5.3.3): a tag of at most 255 bytes is used verbatim, a longer one is replaced by
/// H("H2C-OVERSIZE-DST-" || tag).  GROUND obligation (fixed tag and message): with a symbolic byte ahead of a 255-step digest loop the query did not finish in 600 s
fn h2f_dst_boundary<const DL: usize>() {
    let msg: [u8; 1] = [0x6d];
    let mut dst = [0x41u8; DL];
    dst[DL - 1] = 0x7a;
    let hasher = <DefaultFieldHasher<Toy, 28> as HashToField<PF13>>::new(&dst);
    let out: [PF13; 2] = hasher.hash_to_field::<2>(&msg);
    let u = if DL > 255 {
        let d = h_bytes(&[b"H2C-OVERSIZE-DST-", &dst]);
        ref_expand8(&msg, &d)
    } else {
        ref_expand8(&msg, &dst)
    };
    crate::cover!(true);
    let ok = out[0].val() == os2ip_mod(&u[0..4], 13) && out[1].val() == os2ip_mod(&u[4..8], 13);
    core::mem::forget(hasher);
    assert!(ok);
}
/// hash_to_field::<1> over Fp2 = F_13[u]/(u^2-2): one element = two base-field coordinates from consecutive 4-byte chunks
fn h2f_fp2<const ML: usize>() {
    let msg: [u8; ML] = any();
    let dst: [u8; 2] = any();
    let hasher = <DefaultFieldHasher<Toy, 28> as HashToField<F13_2>>::new(&dst);
    let out: [F13_2; 1] = hasher.hash_to_field::<1>(&msg);
    let u = ref_expand8(&msg, &dst);
    crate::cover!(msg[0] == 1);
    let ok = out[0].c0.val() == os2ip_mod(&u[0..4], 13) && out[0].c1.val() == os2ip_mod(&u[4..8], 13);
    core::mem::forget(hasher);
    assert!(ok);
}

// ---- simplified SWU reference (RFC 9380 6.6.2, straight-line version F.2 without optimisations) on integers mod 13 ----
const P: u32 = 13;
fn inv0(x: u32) -> u32 {
    // x^(p-2), 0 -> 0
    let mut r = 1;
    let mut i = 0;
    while i < P - 2 {
        r = (r * x) % P;
        i += 1;
    }
    if x == 0 { 0 } else { r }
}
fn sqrt_mod(g: u32) -> Option<u32> {
    let mut r = None;
    let mut y = 0;
    while y < P {
        if (y * y) % P == g && r.is_none() {
            r = Some(y);
        }
        y += 1;
    }
    r
}
fn swu_ref(u: u32) -> (u32, u32) {
    let (a, b, z) = (SWCOF4_A, SWCOF4_B, SWCOF4_ZETA);
    let g = |x: u32| ((x * x % P) * x + a * x + b) % P;
    let u2 = (u * u) % P;
    let zu2 = (z * u2) % P;
    let tv1 = inv0((zu2 * zu2 + zu2) % P);
    let minus_b_over_a = ((P - b) * inv0(a)) % P;
    let mut x1 = (minus_b_over_a * ((1 + tv1) % P)) % P;
    if tv1 == 0 {
        x1 = (b * inv0((z * a) % P)) % P;
    }
    let gx1 = g(x1);
    let x2 = (zu2 * x1) % P;
    let gx2 = g(x2);
    let (x, y) = match sqrt_mod(gx1) {
        Some(y) => (x1, y),
        None => (x2, sqrt_mod(gx2).unwrap_or(0)),
    };
    // sgn0(y) must equal sgn0(u)
    let y = if (y & 1) != (u & 1) { (P - y) % P } else { y };
    (x, y)
}

crate::harnesses! { REG;
    /// quick required | hash_to_field::<2> over F_13 through DefaultFieldHasher<toy digest, k = 28> (L = 4 bytes = digest block size): ALL 1-byte messages and ALL 2-byte DSTs == independent RFC 9380 expand_message_xmd + OS2IP mod p (Z_pad, I2OSP(len,2), I2OSP(0,1), DST', b_0/b_1/strxor chaining, chunk offsets)
    #[unwind(12)]
    fn c13_h2f_prime_m1() { h2f_prime::<1, 2>() }
    /// quick required | hash_to_field::<2> over F_13: ALL 3-byte messages, ALL 2-byte DSTs
    #[unwind(12)]
    fn c13_h2f_prime_m3() { h2f_prime::<3, 2>() }
    /// quick required | hash_to_field::<2> over F_13: the empty message with ALL 2-byte DSTs
    #[unwind(12)]
    fn c13_h2f_prime_empty_msg() { h2f_prime::<0, 2>() }
    /// quick required | hash_to_field::<2> over F_13: ALL 2-byte messages with the empty DST
    #[unwind(12)]
    fn c13_h2f_prime_empty_dst() { h2f_prime::<2, 0>() }
    /// quick required | ground: hash_to_field::<2> over F_13 with a fixed DST of EXACTLY 255 bytes (the longest tag used verbatim) == reference with DST_prime = DST || 0xff
    #[unwind(270)]
    fn c13_h2f_dst_255() { h2f_dst_boundary::<255>() }
    /// quick required | ground: hash_to_field::<2> over F_13 with a fixed DST of 256 bytes (the shortest oversize tag) == reference with DST replaced by H("H2C-OVERSIZE-DST-" || DST)
    #[unwind(270)]
    fn c13_h2f_dst_256() { h2f_dst_boundary::<256>() }
    /// thorough required timeout=2400 | hash_to_field::<2> over F_13 with a 4-byte DST, ALL 2-byte messages
    #[unwind(12)]
    fn c13_h2f_prime_dst4() { h2f_prime::<2, 4>() }
    /// quick required | hash_to_field::<1> over Fp2/F_13: ALL 2-byte messages, ALL 2-byte DSTs: coordinates c0, c1 from consecutive chunks
    #[unwind(12)]
    fn c13_h2f_fp2() { h2f_fp2::<2>() }
    /// quick required unwindset=BitIteratorBE:66,>::pow:8,SqrtPrecomputation:7 | simplified SWU (SWUMap) on the toy curve SwCof4 over F_13 for ALL field elements u (u = 0 and the exceptional denominators included): output == RFC 9380 6.6.2 reference, on the curve, sgn0(y) == sgn0(u)
    #[unwind(20)]
    fn c13_swu_all_u() {
        let u: u32 = any();
        let u = u & 0xf;
        assume(u < P);
        let r = SWUMap::<SwCof4>::map_to_curve(PF13::enc(u));
        let (x, y) = swu_ref(u);
        crate::cover!(u == 0);
        crate::cover!(u > 1 && (y & 1) == 1);
        let ok = match r {
            Ok(pt) => !pt.infinity && pt.x.val() == x && pt.y.val() == y && pt.is_on_curve() && (pt.y.val() & 1) == (u & 1)
                && SWUMap::<SwCof4>::check_parameters().is_ok(),
            Err(_) => false,
        };
        assert!(ok);
    }
}
