//! Input shim: `kani::any()` under Kani, recorded bytes under native replay.
#[cfg(kani)]
pub fn any<T: kani::Arbitrary>() -> T {
    kani::any()
}
#[cfg(kani)]
pub fn assume(c: bool) {
    kani::assume(c)
}
#[cfg(kani)]
#[macro_export]
macro_rules! cover {
    ($c:expr) => {
        kani::cover!($c)
    };
    ($c:expr, $m:literal) => {
        kani::cover!($c, $m)
    };
}
#[cfg(not(kani))]
#[macro_export]
macro_rules! cover {
    ($c:expr) => {
        let _ = $c;
    };
    ($c:expr, $m:literal) => {
        let _ = $c;
    };
}

#[cfg(not(kani))]
mod native {
    use std::cell::RefCell;
    use std::vec::Vec;
    thread_local! {
        pub static TAPE: RefCell<(Vec<Vec<u8>>, usize)> = RefCell::new((Vec::new(), 0));
    }
    pub trait FromTape: Sized {
        fn from_tape(b: &[u8]) -> Self;
    }
    macro_rules! int_tape {
        ($($t:ty),*) => {$(
            impl FromTape for $t {
                fn from_tape(b: &[u8]) -> Self {
                    let mut a = [0u8; core::mem::size_of::<$t>()];
                    let n = a.len().min(b.len());
                    a[..n].copy_from_slice(&b[..n]);
                    <$t>::from_le_bytes(a)
                }
            }
        )*};
    }
    int_tape!(u8, u16, u32, u64, u128, usize, i8, i16, i32, i64, i128, isize);
    impl FromTape for bool {
        fn from_tape(b: &[u8]) -> Self {
            b.first().map(|x| x & 1 == 1).unwrap_or(false)
        }
    }
    impl<T: FromTape, const N: usize> FromTape for [T; N] {
        fn from_tape(_b: &[u8]) -> Self {
            core::array::from_fn(|_| super::any::<T>())
        }
    }
    pub fn next() -> Vec<u8> {
        TAPE.with(|t| {
            let mut t = t.borrow_mut();
            let i = t.1;
            t.1 += 1;
            t.0.get(i).cloned().unwrap_or_default()
        })
    }
    pub fn load(v: Vec<Vec<u8>>) {
        TAPE.with(|t| *t.borrow_mut() = (v, 0));
    }
}
#[cfg(not(kani))]
pub use native::{load, FromTape};

#[cfg(not(kani))]
pub fn any<T: FromTape>() -> T {
    // arrays pull one tape entry per element (this is how Kani's concrete playback records them)
    if core::any::type_name::<T>().starts_with('[') {
        T::from_tape(&[])
    } else {
        T::from_tape(&native::next())
    }
}
#[cfg(not(kani))]
pub fn assume(c: bool) {
    if !c {
        // outside the assumed domain: a replay that ends here is not a counterexample
        std::println!("REPLAY-OUTSIDE-ASSUMPTION");
        std::process::exit(3);
    }
}
