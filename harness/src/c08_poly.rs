//! C08 — univariate polynomial arithmetic is ring arithmetic on canonical representations.
//! Field: table-backed F_13 (`plain.rs`).  Oracle: pointwise — for a symbolic evaluation point x, (f op g)(x) = f(x) op g(x),
//! with f(x), g(x) by Horner on integers mod 13; all degrees involved are < 13, so pointwise equality at ALL x is equality of
//! polynomials.  Canonical form is asserted on every result.
use crate::fields::Tiny;
use crate::plain::*;
use crate::sym::{any, assume};
use ark_ff::{Field, Zero};
use ark_poly::{
    univariate::{DenseOrSparsePolynomial, DensePolynomial, SparsePolynomial},
    DenseUVPolynomial, Polynomial,
};
use ark_std::vec::Vec;

type F = PF13;
const P: u32 = 13;

fn anyv() -> u32 {
    let v: u32 = any();
    let v = v & 0xf;
    assume(v < P);
    v
}
fn horner(c: &[u32], x: u32) -> u32 {
    let mut acc = 0u32;
    let mut i = c.len();
    while i > 0 {
        i -= 1;
        acc = (acc * x + c[i]) % P;
    }
    acc
}
fn powm(x: u32, e: usize) -> u32 {
    let mut r = 1;
    let mut i = 0;
    while i < e {
        r = (r * x) % P;
        i += 1;
    }
    r
}
/// dense polynomial from L symbolic raw coefficients (trailing zeros allowed: the constructor must canonicalise)
fn dense<const L: usize>() -> ([u32; L], DensePolynomial<F>) {
    let c: [u32; L] = core::array::from_fn(|_| anyv());
    let v: Vec<F> = c.iter().map(|&x| F::enc(x)).collect();
    (c, DensePolynomial::from_coefficients_vec(v))
}
fn dense_eval(p: &DensePolynomial<F>, x: u32) -> u32 {
    let mut acc = 0u32;
    let mut i = p.coeffs.len();
    while i > 0 {
        i -= 1;
        acc = (acc * x + p.coeffs[i].val()) % P;
    }
    acc
}
fn dense_canon(p: &DensePolynomial<F>) -> bool {
    let ok = p.coeffs.last().map_or(true, |c| !c.is_zero());
    // asking for the degree never fails on a canonical polynomial
    ok && (p.coeffs.is_empty() || p.degree() + 1 == p.coeffs.len())
}
/// sparse polynomial with T terms: symbolic pairwise distinct degrees in 0..=5 (any order) and symbolic non-zero coefficients
fn sparse<const T: usize>() -> ([(usize, u32); T], SparsePolynomial<F>) {
    let t: [(usize, u32); T] = core::array::from_fn(|_| {
        let d: usize = any();
        assume(d <= 5);
        let c = anyv();
        assume(c != 0);
        (d, c)
    });
    let mut i = 0;
    while i < T {
        let mut j = i + 1;
        while j < T {
            assume(t[i].0 != t[j].0);
            j += 1;
        }
        i += 1;
    }
    let v: Vec<(usize, F)> = t.iter().map(|&(d, c)| (d, F::enc(c))).collect();
    (t, SparsePolynomial::from_coefficients_vec(v))
}
fn sparse_raw_eval<const T: usize>(t: &[(usize, u32); T], x: u32) -> u32 {
    let mut acc = 0;
    let mut i = 0;
    while i < T {
        acc = (acc + t[i].1 * powm(x, t[i].0)) % P;
        i += 1;
    }
    acc
}
fn sparse_eval(p: &SparsePolynomial<F>, x: u32) -> u32 {
    let mut acc = 0;
    let mut i = 0;
    while i < p.len() {
        let (d, c) = p[i];
        acc = (acc + c.val() * powm(x, d)) % P;
        i += 1;
    }
    acc
}
fn sparse_canon(p: &SparsePolynomial<F>) -> bool {
    let mut ok = true;
    let mut i = 0;
    while i < p.len() {
        ok &= !p[i].1.is_zero();
        if i > 0 {
            ok &= p[i - 1].0 < p[i].0;
        }
        i += 1;
    }
    ok
}

fn dense_linear<const LA: usize, const LB: usize>() {
    let ((ca, a), (cb, b)) = (dense::<LA>(), dense::<LB>());
    let x = anyv();
    let s = anyv();
    let (fa, fb) = (horner(&ca, x), horner(&cb, x));
    let sum = &a + &b;
    let dif = &a - &b;
    let neg = -a.clone();
    let scaled = &a * F::enc(s);
    let mut acc = a.clone();
    acc += &b;
    let mut acc2 = a.clone();
    acc2 -= &b;
    let mut acc3 = a.clone();
    acc3 += (F::enc(s), &b);
    crate::cover!(LA == LB && LA > 1 && sum.coeffs.len() < LA && !a.is_zero());
    let mut ok = dense_canon(&a) && dense_canon(&sum) && dense_canon(&dif) && dense_canon(&neg) && dense_canon(&scaled) && dense_canon(&acc) && dense_canon(&acc2) && dense_canon(&acc3);
    ok &= dense_eval(&a, x) == fa && dense_eval(&sum, x) == (fa + fb) % P && dense_eval(&dif, x) == (fa + P - fb) % P;
    ok &= dense_eval(&neg, x) == (P - fa) % P && dense_eval(&scaled, x) == (s * fa) % P;
    ok &= acc == sum && acc2 == dif && dense_eval(&acc3, x) == (fa + s * fb) % P;
    ok &= a.evaluate(&F::enc(x)).val() == fa;
    #[cfg(not(kani))]
    if !ok {
        std::eprintln!("DBG a={:?} b={:?} s={} x={} sum={:?} dif={:?} neg={:?} scaled={:?} acc={:?} acc2={:?} acc3={:?}", ca, cb, s, x,
            sum.coeffs.iter().map(|c| c.val()).collect::<Vec<_>>(), dif.coeffs.iter().map(|c| c.val()).collect::<Vec<_>>(), neg.coeffs.iter().map(|c| c.val()).collect::<Vec<_>>(),
            scaled.coeffs.iter().map(|c| c.val()).collect::<Vec<_>>(), acc.coeffs.iter().map(|c| c.val()).collect::<Vec<_>>(), acc2.coeffs.iter().map(|c| c.val()).collect::<Vec<_>>(), acc3.coeffs.iter().map(|c| c.val()).collect::<Vec<_>>());
    }
    core::mem::forget((a, b, sum, dif, neg, scaled, acc, acc2, acc3));
    assert!(ok);
}
fn dense_mul<const LA: usize, const LB: usize>() {
    let ((ca, a), (cb, b)) = (dense::<LA>(), dense::<LB>());
    let x = anyv();
    let (fa, fb) = (horner(&ca, x), horner(&cb, x));
    let naive = a.naive_mul(&b);
    crate::cover!(!a.is_zero() && !b.is_zero());
    let ok = dense_canon(&naive) && dense_eval(&naive, x) == (fa * fb) % P;
    core::mem::forget((a, b, naive));
    assert!(ok);
}
fn dense_div<const LA: usize, const LB: usize>() {
    let ((ca, a), (cb, b)) = (dense::<LA>(), dense::<LB>());
    let x = anyv();
    let (fa, fb) = (horner(&ca, x), horner(&cb, x));
    // dividing by the zero polynomial is a documented panic ("Dividing by zero polynomial"): outside the precondition
    assume(!b.is_zero());
    let r = DenseOrSparsePolynomial::from(&a).divide_with_q_and_r(&DenseOrSparsePolynomial::from(&b));
    crate::cover!(matches!(&r, Some((q, rem)) if !q.is_zero() && !rem.is_zero()));
    crate::cover!(a.is_zero());
    let ok = match &r {
        None => false,
        Some((q, rem)) => {
            !b.is_zero() && dense_canon(q) && dense_canon(rem)
                && (dense_eval(q, x) * fb + dense_eval(rem, x)) % P == fa
                && (rem.is_zero() || rem.coeffs.len() < b.coeffs.len())
        },
    };
    core::mem::forget((a, b, r));
    assert!(ok);
}
fn sparse_ops<const TA: usize, const TB: usize>() {
    let ((ta, a), (tb, b)) = (sparse::<TA>(), sparse::<TB>());
    let x = anyv();
    let s = anyv();
    let (fa, fb) = (sparse_raw_eval(&ta, x), sparse_raw_eval(&tb, x));
    let sum = &a + &b;
    let neg = -a.clone();
    let scaled = &a * F::enc(s);
    let prod = a.mul(&b);
    let mut acc = a.clone();
    acc += &b;
    let mut acc2 = a.clone();
    acc2 -= &b;
    let mut acc3 = a.clone();
    acc3 += (F::enc(s), &b);
    let da: DensePolynomial<F> = a.clone().into();
    let back: SparsePolynomial<F> = da.clone().into();
    crate::cover!(TA > 0 && TA == TB && sum.len() < TA);
    let mut ok = sparse_canon(&a) && sparse_canon(&sum) && sparse_canon(&neg) && sparse_canon(&scaled) && sparse_canon(&prod) && sparse_canon(&acc) && sparse_canon(&acc2) && sparse_canon(&acc3);
    ok &= sparse_eval(&a, x) == fa && sparse_eval(&sum, x) == (fa + fb) % P && sparse_eval(&neg, x) == (P - fa) % P;
    ok &= sparse_eval(&scaled, x) == (s * fa) % P && sparse_eval(&prod, x) == (fa * fb) % P;
    ok &= acc == sum && sparse_eval(&acc2, x) == (fa + P - fb) % P && sparse_eval(&acc3, x) == (fa + s * fb) % P;
    ok &= dense_canon(&da) && dense_eval(&da, x) == fa && back == a && a.evaluate(&F::enc(x)).val() == fa;
    #[cfg(not(kani))]
    if !ok {
        let sv = |p: &SparsePolynomial<F>| p.iter().map(|(d, c)| (*d, c.val())).collect::<Vec<_>>();
        std::eprintln!("DBG a={:?} b={:?} s={} x={} sum={:?} neg={:?} scaled={:?} prod={:?} acc={:?} acc2={:?} acc3={:?}", ta, tb, s, x, sv(&sum), sv(&neg), sv(&scaled), sv(&prod), sv(&acc), sv(&acc2), sv(&acc3));
    }
    core::mem::forget((a, b, sum, neg, scaled, prod, acc, acc2, acc3, da, back));
    assert!(ok);
}
fn mixed_ops<const LA: usize, const TB: usize>() {
    let ((ca, a), (tb, b)) = (dense::<LA>(), sparse::<TB>());
    let x = anyv();
    let (fa, fb) = (horner(&ca, x), sparse_raw_eval(&tb, x));
    #[cfg(not(kani))]
    if std::env::var("VERIF_DBG").is_ok() {
        std::eprintln!("DBG-IN a={:?} b={:?} x={}", ca, tb, x);
    }
    let sum = &a + &b;
    let dif = &a - &b;
    let mut acc = a.clone();
    acc += &b;
    let mut acc2 = a.clone();
    acc2 -= &b;
    crate::cover!(LA > 0 && !a.is_zero() && dif.coeffs.len() < a.coeffs.len());
    crate::cover!(TB > 0 && tb[0].0 >= LA);
    let mut ok = dense_canon(&sum) && dense_canon(&dif) && dense_canon(&acc) && dense_canon(&acc2);
    ok &= dense_eval(&sum, x) == (fa + fb) % P && dense_eval(&dif, x) == (fa + P - fb) % P && dense_eval(&acc, x) == (fa + fb) % P && dense_eval(&acc2, x) == (fa + P - fb) % P;
    #[cfg(not(kani))]
    if !ok {
        let dv = |p: &DensePolynomial<F>| p.coeffs.iter().map(|c| c.val()).collect::<Vec<_>>();
        std::eprintln!("DBG a={:?} b={:?} x={} sum={:?} dif={:?} acc={:?} acc2={:?}", ca, tb, x, dv(&sum), dv(&dif), dv(&acc), dv(&acc2));
    }
    core::mem::forget((a, b, sum, dif, acc, acc2));
    assert!(ok);
}

crate::harnesses! { REG;
    /// quick required | dense + - neg scale += -= and scaled add (a += (s, &b) is a + s*b) over F_13: coefficient vectors of lengths (2,2) — cancelling leading terms — with ALL coefficients, scalars and evaluation points; results canonical, pointwise correct
    #[unwind(8)]
    fn c08_dense_linear_22() { dense_linear::<2, 2>() }
    /// quick required | dense linear operators, lengths (3,1) and (1,3): ALL coefficients / points
    #[unwind(8)]
    fn c08_dense_linear_31() { dense_linear::<3, 1>(); dense_linear::<1, 3>() }
    /// quick required | dense linear operators with a zero operand, lengths (0,2) and (2,0) and (0,0)
    #[unwind(8)]
    fn c08_dense_linear_zero() { dense_linear::<0, 2>(); dense_linear::<2, 0>(); dense_linear::<0, 0>() }
    /// quick required | dense naive_mul, lengths (2,2), (3,2), (0,2): ALL coefficients / points; canonical
    #[unwind(8)]
    fn c08_dense_mul() { dense_mul::<2, 2>(); dense_mul::<3, 2>(); dense_mul::<0, 2>() }
    /// quick required | divide_with_q_and_r, lengths (3,2): a = q*b + r pointwise, deg r < deg b, canonical q and r: ALL coefficients with b != 0 (divisor with zero leading input coefficients included; b = 0 is a documented panic)
    #[unwind(8)]
    fn c08_dense_div_32() { dense_div::<3, 2>() }
    /// quick required | divide_with_q_and_r, lengths (2,3) (dividend shorter) and (4,2) (two quotient steps, interior cancellation)
    #[unwind(8)]
    fn c08_dense_div_more() { dense_div::<2, 3>(); dense_div::<4, 2>() }
    /// quick required | sparse + neg scale mul += -= scaled add, conversions to/from dense: 2 x 2 terms with ALL distinct degrees <= 5 in any input order and ALL non-zero coefficients: canonical (sorted, non-zero), pointwise correct
    #[unwind(10)]
    fn c08_sparse_22() { sparse_ops::<2, 2>() }
    /// quick required | sparse operators with 1 x 2 terms and with a zero operand
    #[unwind(10)]
    fn c08_sparse_12_zero() { sparse_ops::<1, 2>(); sparse_ops::<0, 1>(); sparse_ops::<1, 0>() }
    /// quick required | dense/sparse mixes: &dense + &sparse, &dense - &sparse, dense += &sparse, dense -= &sparse: dense length 2, sparse 2 terms (degrees above and below the dense one; cancellation of the leading term): canonical, pointwise correct
    #[unwind(10)]
    fn c08_mixed_22() { mixed_ops::<2, 2>() }
    /// quick required | dense/sparse mixes with a zero dense operand or a zero sparse operand, and dense length 3 with 1 sparse term
    #[unwind(10)]
    fn c08_mixed_more() { mixed_ops::<0, 1>(); mixed_ops::<2, 0>(); mixed_ops::<3, 1>() }
}
