//! C08 — univariate polynomial arithmetic is ring arithmetic on canonical representations.
//! Field: table-backed F_13 (`plain.rs`).  Oracle: pointwise — for a symbolic evaluation point x, (f op g)(x) = f(x) op g(x),
//! with f(x), g(x) by Horner on integers mod 13; all degrees involved are < 13, so pointwise equality at ALL x is equality of
//! polynomials.  Canonical form is asserted on every result.
use crate::fields::Tiny;
use crate::plain::*;
use crate::sym::{any, assume};
use ark_ff::{Field, Zero};
use ark_poly::{
    univariate::{DenseOrSparsePolynomial, DensePolynomial, SparsePolynomial},
    DenseUVPolynomial, Polynomial,
};
use ark_std::vec::Vec;

type F = PF13;
const P: u32 = 13;

fn anyv() -> u32 {
    let v: u32 = any();
    let v = v & 0xf;
    assume(v < P);
    v
}
fn horner(c: &[u32], x: u32) -> u32 {
    let mut acc = 0u32;
    let mut i = c.len();
    while i > 0 {
        i -= 1;
        acc = (acc * x + c[i]) % P;
    }
    acc
}
fn powm(x: u32, e: usize) -> u32 {
    let mut r = 1;
    let mut i = 0;
    while i < e {
        r = (r * x) % P;
        i += 1;
    }
    r
}
/// dense polynomial with exactly L coefficients, ALL symbolic with a non-zero leading one (L = 0: the zero polynomial).
/// The length is kept concrete on purpose: a Vec of symbolic length makes CBMC's heap model explode; every length pair gets
/// its own call, and the constructor's canonicalisation of trailing zeros is decided separately (c08_constructors).
fn dense<const L: usize>() -> ([u32; L], DensePolynomial<F>) {
    let c: [u32; L] = core::array::from_fn(|_| anyv());
    if L > 0 {
        assume(c[L - 1] != 0);
    }
    // built through the public `coeffs` field (already canonical by the assumption above)
    let v: [F; L] = core::array::from_fn(|i| F::enc(c[i]));
    (c, DensePolynomial { coeffs: v.to_vec() })
}
fn dense_eval(p: &DensePolynomial<F>, x: u32) -> u32 {
    let mut acc = 0u32;
    let mut i = p.coeffs.len();
    while i > 0 {
        i -= 1;
        acc = (acc * x + p.coeffs[i].val()) % P;
    }
    acc
}
fn dense_canon(p: &DensePolynomial<F>) -> bool {
    let ok = p.coeffs.last().map_or(true, |c| !c.is_zero());
    // asking for the degree never fails on a canonical polynomial
    ok && (p.coeffs.is_empty() || p.degree() + 1 == p.coeffs.len())
}
/// sparse polynomial with T terms: symbolic pairwise distinct degrees in 0..=5 (any order) and symbolic non-zero coefficients
fn sparse<const T: usize>() -> ([(usize, u32); T], SparsePolynomial<F>) {
    let t: [(usize, u32); T] = core::array::from_fn(|_| {
        let d: usize = any();
        assume(d <= 5);
        let c = anyv();
        assume(c != 0);
        (d, c)
    });
    let mut i = 0;
    while i < T {
        let mut j = i + 1;
        while j < T {
            assume(t[i].0 != t[j].0);
            j += 1;
        }
        i += 1;
    }
    let v: Vec<(usize, F)> = t.iter().map(|&(d, c)| (d, F::enc(c))).collect();
    (t, SparsePolynomial::from_coefficients_vec(v))
}
fn sparse_raw_eval<const T: usize>(t: &[(usize, u32); T], x: u32) -> u32 {
    let mut acc = 0;
    let mut i = 0;
    while i < T {
        acc = (acc + t[i].1 * powm(x, t[i].0)) % P;
        i += 1;
    }
    acc
}
fn sparse_eval(p: &SparsePolynomial<F>, x: u32) -> u32 {
    let mut acc = 0;
    let mut i = 0;
    while i < p.len() {
        let (d, c) = p[i];
        acc = (acc + c.val() * powm(x, d)) % P;
        i += 1;
    }
    acc
}
fn sparse_canon(p: &SparsePolynomial<F>) -> bool {
    let mut ok = true;
    let mut i = 0;
    while i < p.len() {
        ok &= !p[i].1.is_zero();
        if i > 0 {
            ok &= p[i - 1].0 < p[i].0;
        }
        i += 1;
    }
    ok
}

fn dense_linear<const LA: usize, const LB: usize>() {
    let ((ca, a), (cb, b)) = (dense::<LA>(), dense::<LB>());
    let x = anyv();
    let s = anyv();
    let (fa, fb) = (horner(&ca, x), horner(&cb, x));
    let sum = &a + &b;
    let dif = &a - &b;
    let neg = -a.clone();
    let scaled = &a * F::enc(s);
    let mut acc = a.clone();
    acc += &b;
    let mut acc2 = a.clone();
    acc2 -= &b;
    let mut acc3 = a.clone();
    acc3 += (F::enc(s), &b);
    crate::cover!(LA == LB && LA > 1 && sum.coeffs.len() < LA && !a.is_zero());
    let mut ok = dense_canon(&a) && dense_canon(&sum) && dense_canon(&dif) && dense_canon(&neg) && dense_canon(&scaled) && dense_canon(&acc) && dense_canon(&acc2) && dense_canon(&acc3);
    ok &= dense_eval(&a, x) == fa && dense_eval(&sum, x) == (fa + fb) % P && dense_eval(&dif, x) == (fa + P - fb) % P;
    ok &= dense_eval(&neg, x) == (P - fa) % P && dense_eval(&scaled, x) == (s * fa) % P;
    ok &= acc == sum && acc2 == dif && dense_eval(&acc3, x) == (fa + s * fb) % P;
    ok &= a.evaluate(&F::enc(x)).val() == fa;
    #[cfg(not(kani))]
    if !ok {
        std::eprintln!("DBG a={:?} b={:?} s={} x={} sum={:?} dif={:?} neg={:?} scaled={:?} acc={:?} acc2={:?} acc3={:?}", ca, cb, s, x,
            sum.coeffs.iter().map(|c| c.val()).collect::<Vec<_>>(), dif.coeffs.iter().map(|c| c.val()).collect::<Vec<_>>(), neg.coeffs.iter().map(|c| c.val()).collect::<Vec<_>>(),
            scaled.coeffs.iter().map(|c| c.val()).collect::<Vec<_>>(), acc.coeffs.iter().map(|c| c.val()).collect::<Vec<_>>(), acc2.coeffs.iter().map(|c| c.val()).collect::<Vec<_>>(), acc3.coeffs.iter().map(|c| c.val()).collect::<Vec<_>>());
    }
    core::mem::forget((a, b, sum, dif, neg, scaled, acc, acc2, acc3));
    assert!(ok);
}
fn dense_mul<const LA: usize, const LB: usize>() {
    let ((ca, a), (cb, b)) = (dense::<LA>(), dense::<LB>());
    let x = anyv();
    let (fa, fb) = (horner(&ca, x), horner(&cb, x));
    let naive = a.naive_mul(&b);
    crate::cover!(!a.is_zero() && !b.is_zero());
    let ok = dense_canon(&naive) && dense_eval(&naive, x) == (fa * fb) % P;
    core::mem::forget((a, b, naive));
    assert!(ok);
}
fn dense_div<const LA: usize, const LB: usize>() {
    let ((ca, a), (cb, b)) = (dense::<LA>(), dense::<LB>());
    let x = anyv();
    let (fa, fb) = (horner(&ca, x), horner(&cb, x));
    // dividing by the zero polynomial is a documented panic ("Dividing by zero polynomial"): outside the precondition
    assume(!b.is_zero());
    let r = DenseOrSparsePolynomial::from(&a).divide_with_q_and_r(&DenseOrSparsePolynomial::from(&b));
    crate::cover!(matches!(&r, Some((q, rem)) if !q.is_zero() && !rem.is_zero()));
    crate::cover!(a.is_zero());
    let ok = match &r {
        None => false,
        Some((q, rem)) => {
            !b.is_zero() && dense_canon(q) && dense_canon(rem)
                && (dense_eval(q, x) * fb + dense_eval(rem, x)) % P == fa
                && (rem.is_zero() || rem.coeffs.len() < b.coeffs.len())
        },
    };
    core::mem::forget((a, b, r));
    assert!(ok);
}
fn sparse_ops<const TA: usize, const TB: usize>() {
    let ((ta, a), (tb, b)) = (sparse::<TA>(), sparse::<TB>());
    let x = anyv();
    let s = anyv();
    let (fa, fb) = (sparse_raw_eval(&ta, x), sparse_raw_eval(&tb, x));
    let sum = &a + &b;
    let neg = -a.clone();
    let scaled = &a * F::enc(s);
    let prod = a.mul(&b);
    let mut acc = a.clone();
    acc += &b;
    let mut acc2 = a.clone();
    acc2 -= &b;
    let mut acc3 = a.clone();
    acc3 += (F::enc(s), &b);
    let da: DensePolynomial<F> = a.clone().into();
    let back: SparsePolynomial<F> = da.clone().into();
    crate::cover!(TA > 0 && TA == TB && sum.len() < TA);
    let mut ok = sparse_canon(&a) && sparse_canon(&sum) && sparse_canon(&neg) && sparse_canon(&scaled) && sparse_canon(&prod) && sparse_canon(&acc) && sparse_canon(&acc2) && sparse_canon(&acc3);
    ok &= sparse_eval(&a, x) == fa && sparse_eval(&sum, x) == (fa + fb) % P && sparse_eval(&neg, x) == (P - fa) % P;
    ok &= sparse_eval(&scaled, x) == (s * fa) % P && sparse_eval(&prod, x) == (fa * fb) % P;
    ok &= acc == sum && sparse_eval(&acc2, x) == (fa + P - fb) % P && sparse_eval(&acc3, x) == (fa + s * fb) % P;
    ok &= dense_canon(&da) && dense_eval(&da, x) == fa && back == a && a.evaluate(&F::enc(x)).val() == fa;
    #[cfg(not(kani))]
    if !ok {
        let sv = |p: &SparsePolynomial<F>| p.iter().map(|(d, c)| (*d, c.val())).collect::<Vec<_>>();
        std::eprintln!("DBG a={:?} b={:?} s={} x={} sum={:?} neg={:?} scaled={:?} prod={:?} acc={:?} acc2={:?} acc3={:?}", ta, tb, s, x, sv(&sum), sv(&neg), sv(&scaled), sv(&prod), sv(&acc), sv(&acc2), sv(&acc3));
    }
    core::mem::forget((a, b, sum, neg, scaled, prod, acc, acc2, acc3, da, back));
    assert!(ok);
}
fn mixed_ops<const LA: usize, const TB: usize>() {
    let ((ca, a), (tb, b)) = (dense::<LA>(), sparse::<TB>());
    let x = anyv();
    let (fa, fb) = (horner(&ca, x), sparse_raw_eval(&tb, x));
    #[cfg(not(kani))]
    if std::env::var("VERIF_DBG").is_ok() {
        std::eprintln!("DBG-IN a={:?} b={:?} x={}", ca, tb, x);
    }
    let sum = &a + &b;
    let dif = &a - &b;
    let mut acc = a.clone();
    acc += &b;
    let mut acc2 = a.clone();
    acc2 -= &b;
    crate::cover!(LA > 0 && !a.is_zero() && dif.coeffs.len() < a.coeffs.len());
    crate::cover!(TB > 0 && tb[0].0 >= LA);
    let mut ok = dense_canon(&sum) && dense_canon(&dif) && dense_canon(&acc) && dense_canon(&acc2);
    ok &= dense_eval(&sum, x) == (fa + fb) % P && dense_eval(&dif, x) == (fa + P - fb) % P && dense_eval(&acc, x) == (fa + fb) % P && dense_eval(&acc2, x) == (fa + P - fb) % P;
    #[cfg(not(kani))]
    if !ok {
        let dv = |p: &DensePolynomial<F>| p.coeffs.iter().map(|c| c.val()).collect::<Vec<_>>();
        std::eprintln!("DBG a={:?} b={:?} x={} sum={:?} dif={:?} acc={:?} acc2={:?}", ca, tb, x, dv(&sum), dv(&dif), dv(&acc), dv(&acc2));
    }
    core::mem::forget((a, b, sum, dif, acc, acc2));
    assert!(ok);
}

fn mixed_one<const LA: usize, const TB: usize, const OP: u8>() {
    let ((ca, a), (tb, b)) = (dense::<LA>(), sparse::<TB>());
    let x = anyv();
    let (fa, fb) = (horner(&ca, x), sparse_raw_eval(&tb, x));
    let (r, want) = match OP {
        0 => (&a + &b, (fa + fb) % P),
        1 => (&a - &b, (fa + P - fb) % P),
        2 => { let mut t = a.clone(); t += &b; (t, (fa + fb) % P) },
        _ => { let mut t = a.clone(); t -= &b; (t, (fa + P - fb) % P) },
    };
    crate::cover!(LA > 0 && r.coeffs.len() < LA);
    crate::cover!(TB > 0 && tb[0].0 >= LA);
    let ok = dense_canon(&r) && dense_eval(&r, x) == want;
    core::mem::forget((a, b, r));
    assert!(ok);
}
/// mixed dense/sparse operators with CONCRETE sparse degrees (keeps the sort in from_coefficients_vec concrete) and symbolic coefficients
fn mixed_fixed<const LA: usize, const TB: usize, const OP: u8>(degs: [usize; TB]) {
    let (ca, a) = dense::<LA>();
    let cb: [u32; TB] = core::array::from_fn(|_| { let c = anyv(); assume(c != 0); c });
    let x = anyv();
    let terms: [(usize, F); TB] = core::array::from_fn(|i| (degs[i], F::enc(cb[i])));
    let b = SparsePolynomial::from_coefficients_slice(&terms);
    let mut fb = 0;
    let mut i = 0;
    while i < TB {
        fb = (fb + cb[i] * powm(x, degs[i])) % P;
        i += 1;
    }
    let fa = horner(&ca, x);
    let (r, want) = match OP {
        0 => (&a + &b, (fa + fb) % P),
        1 => (&a - &b, (fa + P - fb) % P),
        2 => { let mut t = a.clone(); t += &b; (t, (fa + fb) % P) },
        _ => { let mut t = a.clone(); t -= &b; (t, (fa + P - fb) % P) },
    };
    crate::cover!(LA > 0 && r.coeffs.len() < LA);
    crate::cover!(!r.is_zero());
    let ok = dense_canon(&r) && dense_eval(&r, x) == want;
    core::mem::forget((a, b, r));
    assert!(ok);
}
/// constructors canonicalise: from_coefficients_vec / slice on ALL raw coefficient vectors of length L (trailing zeros included)
fn dense_ctor<const L: usize>() {
    let c: [u32; L] = core::array::from_fn(|_| anyv());
    let x = anyv();
    let v: [F; L] = core::array::from_fn(|i| F::enc(c[i]));
    let p = DensePolynomial::from_coefficients_slice(&v);
    crate::cover!(L > 1 && c[L - 1] == 0 && c[L - 2] == 0);
    let ok = dense_canon(&p) && dense_eval(&p, x) == horner(&c, x) && p.is_zero() == (horner(&c, 0) == 0 && p.coeffs.is_empty());
    core::mem::forget(p);
    assert!(ok);
}
// ---- single-operation variants (one library call per harness keeps the CBMC heap model small) --------------------
fn dense_one<const LA: usize, const LB: usize, const OP: u8>() {
    let ((ca, a), (cb, b)) = (dense::<LA>(), dense::<LB>());
    let x = anyv();
    let s = anyv();
    let (fa, fb) = (horner(&ca, x), horner(&cb, x));
    let (r, want) = match OP {
        0 => (&a + &b, (fa + fb) % P),
        1 => (&a - &b, (fa + P - fb) % P),
        2 => (-a.clone(), (P - fa) % P),
        3 => (&a * F::enc(s), (s * fa) % P),
        4 => { let mut t = a.clone(); t += &b; (t, (fa + fb) % P) },
        5 => { let mut t = a.clone(); t -= &b; (t, (fa + P - fb) % P) },
        6 => { let mut t = a.clone(); t += (F::enc(s), &b); (t, (fa + s * fb) % P) },
        _ => (a.naive_mul(&b), (fa * fb) % P),
    };
    crate::cover!(LA == LB && LA > 1 && r.coeffs.len() < LA && !a.is_zero());
    crate::cover!(!r.is_zero());
    crate::cover!((LA == 0 || LB == 0) && r.is_zero()); // zero-operand instances: the result may be identically zero
    let ok = dense_canon(&r) && dense_eval(&r, x) == want;
    core::mem::forget((a, b, r));
    assert!(ok);
}

crate::harnesses! { REG;
    /// thorough attempt timeout=3000 mem=30 | `&dense - &sparse`: dense 2 coefficients, ONE sparse term at degree 1 (cancels the dense leading coefficient), ALL coefficients: canonical
    #[unwind(10)]
    fn c08_mixed_sub_one_term() { mixed_fixed::<2, 1, 1>([1]) }
    /// thorough attempt timeout=3000 mem=30 | `&dense - &sparse`: dense 2 coefficients, sparse terms at degrees (1, 3) (the lower term can cancel the dense leading coefficient before the higher term is processed) and at degrees (0, 1); ALL coefficients: canonical, pointwise correct, no panic
    #[unwind(10)]
    fn c08_mixed_sub_fixed() { mixed_fixed::<2, 2, 1>([1, 3]); mixed_fixed::<2, 2, 1>([0, 1]) }
    /// thorough attempt timeout=3000 mem=30 | `dense -= &sparse`: degrees (1, 3) and (0, 1), dense 2 coefficients, ALL coefficients
    #[unwind(10)]
    fn c08_mixed_sub_assign_fixed() { mixed_fixed::<2, 2, 3>([1, 3]); mixed_fixed::<2, 2, 3>([0, 1]) }
    /// thorough attempt timeout=3000 mem=30 | `&dense + &sparse` and `dense += &sparse`: degrees (1, 3), dense 2 coefficients, ALL coefficients
    #[unwind(10)]
    fn c08_mixed_add_fixed() { mixed_fixed::<2, 2, 0>([1, 3]); mixed_fixed::<2, 2, 2>([1, 3]) }
    /// thorough attempt timeout=3000 mem=30 | zero dense -/-= zero sparse and zero dense - one-term sparse: canonical results
    #[unwind(10)]
    fn c08_mixed_zero_fixed() { mixed_fixed::<0, 0, 1>([]); mixed_fixed::<0, 0, 3>([]); mixed_fixed::<0, 1, 3>([2]); mixed_fixed::<2, 0, 3>([]) }
    /// quick required | dense `&a + &b` over F_13 on ALL polynomials of exactly 2 coefficients each (equal degrees: cancelling leading terms included), ALL scalars and evaluation points: result canonical and pointwise correct
    #[unwind(10)]
    fn c08_dense_add_22() { dense_one::<2, 2, 0>() }
    /// quick required | dense `&a - &b` over F_13 on ALL polynomials of exactly 2 coefficients each (equal degrees: cancelling leading terms included), ALL scalars and evaluation points: result canonical and pointwise correct
    #[unwind(10)]
    fn c08_dense_sub_22() { dense_one::<2, 2, 1>() }
    /// quick required | dense `-a` over F_13 on ALL polynomials of exactly 2 coefficients each (equal degrees: cancelling leading terms included), ALL scalars and evaluation points: result canonical and pointwise correct
    #[unwind(10)]
    fn c08_dense_neg_22() { dense_one::<2, 2, 2>() }
    /// quick required | dense `&a * s` over F_13 on ALL polynomials of exactly 2 coefficients each (equal degrees: cancelling leading terms included), ALL scalars and evaluation points: result canonical and pointwise correct
    #[unwind(10)]
    fn c08_dense_scale_22() { dense_one::<2, 2, 3>() }
    /// quick required | dense `a += &b` over F_13 on ALL polynomials of exactly 2 coefficients each (equal degrees: cancelling leading terms included), ALL scalars and evaluation points: result canonical and pointwise correct
    #[unwind(10)]
    fn c08_dense_add_assign_22() { dense_one::<2, 2, 4>() }
    /// quick required | dense `a -= &b` over F_13 on ALL polynomials of exactly 2 coefficients each (equal degrees: cancelling leading terms included), ALL scalars and evaluation points: result canonical and pointwise correct
    #[unwind(10)]
    fn c08_dense_sub_assign_22() { dense_one::<2, 2, 5>() }
    /// quick required | dense `a += (s, &b) == a + s*b` over F_13 on ALL polynomials of exactly 2 coefficients each (equal degrees: cancelling leading terms included), ALL scalars and evaluation points: result canonical and pointwise correct
    #[unwind(10)]
    fn c08_dense_scaled_add_22() { dense_one::<2, 2, 6>() }
    /// thorough attempt timeout=3000 mem=30 | dense `a.naive_mul(&b)` over F_13 on ALL polynomials of exactly 2 coefficients each (equal degrees: cancelling leading terms included), ALL scalars and evaluation points: result canonical and pointwise correct
    #[unwind(10)]
    fn c08_dense_naive_mul_22() { dense_one::<2, 2, 7>() }
    /// thorough required | dense `&a + &b` with 3 vs 1 and 1 vs 3 coefficients (ALL values)
    #[unwind(10)]
    fn c08_dense_add_31() { dense_one::<3, 1, 0>(); dense_one::<1, 3, 0>() }
    /// quick required | dense `&a - &b` with 3 vs 1 and 1 vs 3 coefficients (ALL values)
    #[unwind(10)]
    fn c08_dense_sub_31() { dense_one::<3, 1, 1>(); dense_one::<1, 3, 1>() }
    /// thorough required | dense `a -= &b` with 3 vs 1 and 1 vs 3 coefficients (ALL values)
    #[unwind(10)]
    fn c08_dense_sub_assign_31() { dense_one::<3, 1, 5>(); dense_one::<1, 3, 5>() }
    /// quick required | dense `a += (s, &b) == a + s*b` with 3 vs 1 and 1 vs 3 coefficients (ALL values)
    #[unwind(10)]
    fn c08_dense_scaled_add_31() { dense_one::<3, 1, 6>(); dense_one::<1, 3, 6>() }
    /// thorough required | dense `a.naive_mul(&b)` with 3 vs 1 and 1 vs 3 coefficients (ALL values)
    #[unwind(10)]
    fn c08_dense_naive_mul_31() { dense_one::<3, 1, 7>(); dense_one::<1, 3, 7>() }
    /// thorough required | dense `&a + &b` with a zero operand on either side and zero op zero
    #[unwind(10)]
    fn c08_dense_add_zero() { dense_one::<0, 2, 0>(); dense_one::<2, 0, 0>(); dense_one::<0, 0, 0>() }
    /// thorough required | dense `&a - &b` with a zero operand on either side and zero op zero
    #[unwind(10)]
    fn c08_dense_sub_zero() { dense_one::<0, 2, 1>(); dense_one::<2, 0, 1>(); dense_one::<0, 0, 1>() }
    /// thorough required | dense `a += &b` with a zero operand on either side and zero op zero
    #[unwind(10)]
    fn c08_dense_add_assign_zero() { dense_one::<0, 2, 4>(); dense_one::<2, 0, 4>(); dense_one::<0, 0, 4>() }
    /// quick required | dense `a -= &b` with a zero operand on either side and zero op zero
    #[unwind(10)]
    fn c08_dense_sub_assign_zero() { dense_one::<0, 2, 5>(); dense_one::<2, 0, 5>(); dense_one::<0, 0, 5>() }
    /// quick required | dense `a += (s, &b) == a + s*b` with a zero operand on either side and zero op zero
    #[unwind(10)]
    fn c08_dense_scaled_add_zero() { dense_one::<0, 2, 6>(); dense_one::<2, 0, 6>(); dense_one::<0, 0, 6>() }
    /// thorough required | dense `a.naive_mul(&b)` with a zero operand on either side and zero op zero
    #[unwind(10)]
    fn c08_dense_naive_mul_zero() { dense_one::<0, 2, 7>(); dense_one::<2, 0, 7>(); dense_one::<0, 0, 7>() }
    /// quick required | DensePolynomial::from_coefficients_slice on ALL raw coefficient vectors of length 0..=3 (trailing zeros included): canonical, same values
    #[unwind(10)]
    fn c08_constructors() { dense_ctor::<0>(); dense_ctor::<1>(); dense_ctor::<2>(); dense_ctor::<3>() }
    /// thorough attempt timeout=3000 mem=30 | divide_with_q_and_r, 3 by 2 coefficients: a = q*b + r pointwise, deg r < deg b, canonical q and r: ALL coefficients (b = 0 is a documented panic, excluded)
    #[unwind(10)]
    fn c08_dense_div_32() { dense_div::<3, 2>() }
    /// thorough required timeout=2400 | divide_with_q_and_r, 2 by 3 (dividend shorter), 4 by 2 (two quotient steps, interior cancellation), 2 by 1, 0 by 2
    #[unwind(10)]
    fn c08_dense_div_more() { dense_div::<2, 3>(); dense_div::<4, 2>(); dense_div::<2, 1>(); dense_div::<0, 2>() }
    /// thorough attempt timeout=3000 mem=30 | `&dense + &sparse`: dense with 2 coefficients, sparse with 2 terms of ALL distinct degrees <= 5 in any input order (above and below the dense degree; cancellation of the dense leading term before the last term is processed), ALL coefficients: canonical, pointwise correct
    #[unwind(10)]
    fn c08_mixed_add_22() { mixed_one::<2, 2, 0>() }
    /// thorough required timeout=2400 | `&dense + &sparse` with a zero dense or zero sparse operand, and dense 3 coefficients vs 1 term
    #[unwind(10)]
    fn c08_mixed_add_more() { mixed_one::<0, 1, 0>(); mixed_one::<2, 0, 0>(); mixed_one::<0, 0, 0>(); mixed_one::<3, 1, 0>() }
    /// thorough attempt timeout=3000 mem=30 | `&dense - &sparse`: dense with 2 coefficients, sparse with 2 terms of ALL distinct degrees <= 5 in any input order (above and below the dense degree; cancellation of the dense leading term before the last term is processed), ALL coefficients: canonical, pointwise correct
    #[unwind(10)]
    fn c08_mixed_sub_22() { mixed_one::<2, 2, 1>() }
    /// thorough required timeout=2400 | `&dense - &sparse` with a zero dense or zero sparse operand, and dense 3 coefficients vs 1 term
    #[unwind(10)]
    fn c08_mixed_sub_more() { mixed_one::<0, 1, 1>(); mixed_one::<2, 0, 1>(); mixed_one::<0, 0, 1>(); mixed_one::<3, 1, 1>() }
    /// thorough attempt timeout=3000 mem=30 | `dense += &sparse`: dense with 2 coefficients, sparse with 2 terms of ALL distinct degrees <= 5 in any input order (above and below the dense degree; cancellation of the dense leading term before the last term is processed), ALL coefficients: canonical, pointwise correct
    #[unwind(10)]
    fn c08_mixed_add_assign_22() { mixed_one::<2, 2, 2>() }
    /// thorough required timeout=2400 | `dense += &sparse` with a zero dense or zero sparse operand, and dense 3 coefficients vs 1 term
    #[unwind(10)]
    fn c08_mixed_add_assign_more() { mixed_one::<0, 1, 2>(); mixed_one::<2, 0, 2>(); mixed_one::<0, 0, 2>(); mixed_one::<3, 1, 2>() }
    /// thorough attempt timeout=3000 mem=30 | `dense -= &sparse`: dense with 2 coefficients, sparse with 2 terms of ALL distinct degrees <= 5 in any input order (above and below the dense degree; cancellation of the dense leading term before the last term is processed), ALL coefficients: canonical, pointwise correct
    #[unwind(10)]
    fn c08_mixed_sub_assign_22() { mixed_one::<2, 2, 3>() }
    /// thorough required timeout=2400 | `dense -= &sparse` with a zero dense or zero sparse operand, and dense 3 coefficients vs 1 term
    #[unwind(10)]
    fn c08_mixed_sub_assign_more() { mixed_one::<0, 1, 3>(); mixed_one::<2, 0, 3>(); mixed_one::<0, 0, 3>(); mixed_one::<3, 1, 3>() }
    /// thorough attempt timeout=3000 mem=30 | sparse + neg scale mul += -= scaled add, conversions: 2 x 2 terms, ALL distinct degrees <= 5 in any order, ALL non-zero coefficients
    #[unwind(10)]
    fn c08_sparse_22() { sparse_ops::<2, 2>() }
    /// thorough attempt timeout=3000 mem=30 | sparse operators with 1 x 2 terms and with a zero operand
    #[unwind(10)]
    fn c08_sparse_12_zero() { sparse_ops::<1, 2>(); sparse_ops::<0, 1>(); sparse_ops::<1, 0>() }
}
