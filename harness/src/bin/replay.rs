//! Native replay of a recorded counterexample: `replay <harness> <replay.json>`.
#![cfg_attr(kani, allow(unused))]
#[cfg(kani)]
fn main() {}
#[cfg(not(kani))]
use std::{env, fs, process};

#[cfg(not(kani))]
fn parse_values(s: &str) -> Vec<Vec<u8>> {
    // minimal parser for the "values": [[..],[..]] entry of the replay file
    let i = s.find("\"values\"").expect("values key");
    let rest = &s[i..];
    let start = rest.find('[').unwrap();
    let mut depth = 0i32;
    let mut out = Vec::new();
    let mut cur: Option<Vec<u8>> = None;
    let mut num = String::new();
    for ch in rest[start..].chars() {
        match ch {
            '[' => {
                depth += 1;
                if depth == 2 {
                    cur = Some(Vec::new());
                }
            },
            ']' => {
                if depth == 2 {
                    if !num.is_empty() {
                        cur.as_mut().unwrap().push(num.parse::<u16>().unwrap() as u8);
                        num.clear();
                    }
                    out.push(cur.take().unwrap());
                }
                depth -= 1;
                if depth == 0 {
                    break;
                }
            },
            ',' => {
                if depth == 2 && !num.is_empty() {
                    cur.as_mut().unwrap().push(num.parse::<u16>().unwrap() as u8);
                    num.clear();
                }
            },
            c if c.is_ascii_digit() => num.push(c),
            _ => {},
        }
    }
    out
}

#[cfg(not(kani))]
fn main() {
    let a: Vec<String> = env::args().collect();
    if a.len() < 3 {
        eprintln!("usage: replay <harness> <replay.json>");
        process::exit(64);
    }
    let text = fs::read_to_string(&a[2]).expect("read replay file");
    let vals = parse_values(&text);
    let f = vh::registry().into_iter().find(|(n, _)| *n == a[1]);
    let Some((_, f)) = f else {
        eprintln!("unknown harness {}", a[1]);
        process::exit(65);
    };
    vh::sym::load(vals);
    println!("REPLAY-START {}", a[1]);
    f();
    println!("REPLAY-OK");
}
