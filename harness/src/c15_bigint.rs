//! C15 — fixed-width big integers are integers modulo 2^(64N) with exact carry flags.
//! Oracles: limb-wise wide arithmetic from `refm`, and bit-level specifications through a symbolic
//! bit index (so one query covers every output bit).
use crate::refm::{add_n, eq_n, is_zero_n, lt, sub_n};
use crate::sym::{any, assume};
use ark_ff::{biginteger::arithmetic::{find_naf, find_relaxed_naf}, signed_mod_reduction, BigInt, BigInteger};
use ark_std::vec::Vec;

fn bit<const N: usize>(a: &[u64; N], i: usize) -> bool {
    if i >= 64 * N {
        false
    } else {
        (a[i / 64] >> (i % 64)) & 1 == 1
    }
}

fn add_carry<const N: usize>() {
    let a: [u64; N] = any();
    let b: [u64; N] = any();
    let mut x = BigInt::<N>(a);
    let carry = x.add_with_carry(&BigInt::<N>(b));
    let (r, c) = add_n(&a, &b);
    crate::cover!(c && r[0] != 0);
    let ok = carry == c && eq_n(&x.0, &r);
    assert!(ok);
}

fn sub_borrow<const N: usize>() {
    let a: [u64; N] = any();
    let b: [u64; N] = any();
    let mut x = BigInt::<N>(a);
    let borrow = x.sub_with_borrow(&BigInt::<N>(b));
    let (r, c) = sub_n(&a, &b);
    crate::cover!(c && r[N - 1] != u64::MAX);
    let ok = borrow == c && eq_n(&x.0, &r);
    assert!(ok);
}

fn mul2_div2<const N: usize>() {
    let a: [u64; N] = any();
    let mut x = BigInt::<N>(a);
    let carry = x.mul2();
    let (r, c) = add_n(&a, &a);
    let mut y = BigInt::<N>(a);
    y.div2();
    let i: usize = any();
    assume(i < 64 * N);
    crate::cover!(c && a[0] & 1 == 1 && i == 64 * N - 1);
    let ok = carry == c && eq_n(&x.0, &r) && bit(&y.0, i) == bit(&a, i + 1);
    assert!(ok);
}

/// `muln`, `<<`, `<<=` with a symbolic shift amount: result bit i = operand bit i-s (or 0)
fn shl<const N: usize>() {
    let a: [u64; N] = any();
    let s: u32 = any();
    assume(s as usize <= 64 * N + 64);
    let mut x = BigInt::<N>(a);
    x.muln(s);
    let y = BigInt::<N>(a) << s;
    let mut z = BigInt::<N>(a);
    z <<= s;
    let i: usize = any();
    assume(i < 64 * N);
    let want = if i >= s as usize { bit(&a, i - s as usize) } else { false };
    crate::cover!(s > 64 && s % 64 != 0 && want && i > 64);
    crate::cover!(s as usize >= 64 * N);
    let ok = bit(&x.0, i) == want && bit(&y.0, i) == want && bit(&z.0, i) == want;
    assert!(ok);
}

/// `divn`, `>>`, `>>=` with a symbolic shift amount: result bit i = operand bit i+s (or 0)
fn shr<const N: usize>() {
    let a: [u64; N] = any();
    let s: u32 = any();
    assume(s as usize <= 64 * N + 64);
    let mut x = BigInt::<N>(a);
    x.divn(s);
    let y = BigInt::<N>(a) >> s;
    let mut z = BigInt::<N>(a);
    z >>= s;
    let i: usize = any();
    assume(i < 64 * N);
    let want = bit(&a, i + s as usize);
    crate::cover!(s > 64 && s % 64 != 0 && want);
    crate::cover!(s as usize >= 64 * N);
    let ok = bit(&x.0, i) == want && bit(&y.0, i) == want && bit(&z.0, i) == want;
    assert!(ok);
}

fn cmp_preds<const N: usize>() {
    use core::cmp::Ordering::*;
    let a: [u64; N] = any();
    let b: [u64; N] = any();
    let (x, y) = (BigInt::<N>(a), BigInt::<N>(b));
    let (_, a_lt_b) = sub_n(&a, &b);
    let same = eq_n(&a, &b);
    let want = if same { Equal } else if a_lt_b { Less } else { Greater };
    crate::cover!(!same && !a_lt_b);
    let mut ok = x.cmp(&y) == want && x.partial_cmp(&y) == Some(want) && (x == y) == same && (x < y) == a_lt_b;
    ok &= x.is_zero() == is_zero_n(&a) && x.is_odd() == (a[0] & 1 == 1) && x.is_even() == (a[0] & 1 == 0);
    ok &= x.const_is_even() == (a[0] & 1 == 0) && x.const_is_odd() == (a[0] & 1 == 1) && x.mod_4() == (a[0] & 3) as u8;
    assert!(ok);
}

fn bits_and_logic<const N: usize>() {
    let a: [u64; N] = any();
    let b: [u64; N] = any();
    let (x, y) = (BigInt::<N>(a), BigInt::<N>(b));
    let i: usize = any();
    assume(i <= 64 * N + 3);
    let nb = x.num_bits();
    let cnb = x.const_num_bits();
    let j: usize = any();
    assume(j < 64 * N);
    crate::cover!(nb as usize == 64 * N - 1);
    crate::cover!(nb == 0);
    let mut ok = x.get_bit(i) == bit(&a, i);
    // const_num_bits is only meaningful when the top limb is non-zero (it is applied to moduli)
    ok &= (a[N - 1] == 0 || nb == cnb) && nb as usize <= 64 * N && (nb == 0) == is_zero_n(&a);
    ok &= nb == 0 || bit(&a, nb as usize - 1);
    ok &= j < nb as usize || !bit(&a, j);
    ok &= bit(&(x ^ y).0, j) == (bit(&a, j) ^ bit(&b, j));
    ok &= bit(&(x & y).0, j) == (bit(&a, j) & bit(&b, j));
    ok &= bit(&(x | y).0, j) == (bit(&a, j) | bit(&b, j));
    ok &= bit(&(!x).0, j) == !bit(&a, j);
    let sh = x.const_shr();
    let d2 = x.divide_by_2_round_down();
    ok &= bit(&sh.0, j) == bit(&a, j + 1);
    // divide_by_2_round_down: (a - (a odd)) / 2 == a >> 1
    ok &= bit(&d2.0, j) == bit(&a, j + 1);
    assert!(ok);
}

fn two_adic<const N: usize>() {
    let a: [u64; N] = any();
    assume(a[0] & 1 == 1);
    assume(!(a[0] == 1 && is_zero_n(&{
        let mut t = a;
        t[0] = 0;
        t
    })));
    // self - 1 = 2^s * t with t odd (documented for odd self > 1)
    let x = BigInt::<N>(a);
    let s = x.two_adic_valuation();
    let t = x.two_adic_coefficient();
    let mut am1 = a;
    am1[0] -= 1;
    let j: usize = any();
    assume(j < 64 * N);
    crate::cover!(s > 64);
    crate::cover!(s == 1);
    let mut ok = t.0[0] & 1 == 1;
    // bits of a-1 below s are zero, bit s is set, and t = (a-1) >> s
    ok &= j >= s as usize || !bit(&am1, j);
    ok &= bit(&am1, s as usize);
    ok &= bit(&t.0, j) == bit(&am1, j + s as usize);
    assert!(ok);
}

fn from_ints<const N: usize>() {
    let a: u64 = any();
    let b: u32 = any();
    let c: u16 = any();
    let d: u8 = any();
    let (x, y, z, w) = (BigInt::<N>::from(a), BigInt::<N>::from(b), BigInt::<N>::from(c), BigInt::<N>::from(d));
    let mut hi0 = true;
    let mut i = 1;
    while i < N {
        hi0 &= x.0[i] == 0 && y.0[i] == 0 && z.0[i] == 0 && w.0[i] == 0;
        i += 1;
    }
    crate::cover!(a > u32::MAX as u64);
    let ok = hi0 && x.0[0] == a && y.0[0] == b as u64 && z.0[0] == c as u64 && w.0[0] == d as u64
        && BigInt::<N>::zero().is_zero() && BigInt::<N>::one().0[0] == 1 && BigInt::<N>::default().is_zero();
    assert!(ok);
}

/// from_bits_le / from_bits_be on all bool slices of (concrete) length L, every result bit through a symbolic index
fn from_bits<const N: usize, const L: usize>() {
    let bits: [bool; L] = any();
    let le = BigInt::<N>::from_bits_le(&bits);
    let be = BigInt::<N>::from_bits_be(&bits);
    let i: usize = any();
    assume(i < 64 * N);
    let want_le = i < L && bits[if i < L { i } else { 0 }];
    let want_be = i < L && bits[if i < L { L - 1 - i } else { 0 }];
    crate::cover!(L == 0 || (want_le && i + 1 == if L < 64 * N { L } else { 64 * N }));
    let ok = bit(&le.0, i) == want_le && bit(&be.0, i) == want_be;
    assert!(ok);
}

fn to_bits_bytes<const N: usize>() {
    let a: [u64; N] = any();
    let x = BigInt::<N>(a);
    let ble = x.to_bits_le();
    let bbe = x.to_bits_be();
    let yle = x.to_bytes_le();
    let ybe = x.to_bytes_be();
    let i: usize = any();
    assume(i < 64 * N);
    let k: usize = any();
    assume(k < 8 * N);
    let byte = (a[k / 8] >> (8 * (k % 8))) as u8;
    crate::cover!(byte == 0xa5 && k == 8 * N - 1);
    let mut ok = ble.len() == 64 * N && bbe.len() == 64 * N && yle.len() == 8 * N && ybe.len() == 8 * N;
    ok = ok && ble[i] == bit(&a, i) && bbe[64 * N - 1 - i] == bit(&a, i);
    ok = ok && yle[k] == byte && ybe[8 * N - 1 - k] == byte;
    core::mem::forget((ble, bbe, yle, ybe));
    assert!(ok);
}

/// column-wise (product-scanning) reference for the 2N-limb product, sharing only the partial products a_i*b_j
fn mul_ref<const N: usize, const M: usize>(a: &[u64; N], b: &[u64; N]) -> [u64; M] {
    let mut r = [0u64; M];
    let mut i = 0;
    while i < N {
        let mut carry: u128 = 0;
        let mut j = 0;
        while j < N {
            let cur = (r[i + j] as u128) + (a[i] as u128) * (b[j] as u128) + carry;
            r[i + j] = cur as u64;
            carry = cur >> 64;
            j += 1;
        }
        r[i + N] = carry as u64;
        i += 1;
    }
    r
}

fn mul_full<const N: usize, const M: usize>(a: [u64; N], b: [u64; N]) {
    let (x, y) = (BigInt::<N>(a), BigInt::<N>(b));
    let (lo, hi) = x.mul(&y);
    let low = x.mul_low(&y);
    let high = x.mul_high(&y);
    let r = mul_ref::<N, M>(&a, &b);
    let mut ok = true;
    let mut i = 0;
    while i < N {
        ok &= lo.0[i] == r[i] && hi.0[i] == r[N + i] && low.0[i] == r[i] && high.0[i] == r[N + i];
        i += 1;
    }
    assert!(ok);
}

fn mul_total<const N: usize, const M: usize>() {
    let a: [u64; N] = any();
    let b: [u64; N] = any();
    crate::cover!(a[N - 1] == u64::MAX && b[N - 1] == u64::MAX);
    crate::cover!(is_zero_n(&a));
    mul_full::<N, M>(a, b);
}

/// narrow operand window at N >= 4: boundary constants in every limb except one 4-bit symbolic nibble per operand
fn mul_window<const N: usize, const M: usize>(pos_a: usize, pos_b: usize, shape: u8) {
    let sa: u8 = any();
    let sb: u8 = any();
    assume(sa < 16 && sb < 16);
    let fill = |s: u8| if s & 1 == 1 { u64::MAX } else { 0 };
    let mut a = [fill(shape); N];
    let mut b = [fill(shape >> 1); N];
    a[pos_a] = if shape & 4 != 0 { u64::MAX - sa as u64 } else { sa as u64 };
    b[pos_b] = if shape & 8 != 0 { u64::MAX - sb as u64 } else { sb as u64 };
    crate::cover!(sa == 15 && sb == 15);
    mul_full::<N, M>(a, b);
}

fn check_digits(res: &[i64], w: usize, value: u128) -> bool {
    // sum d_i 2^i = value, digits odd or zero with |d| < 2^(w-1), any w consecutive digits contain at most one non-zero
    let mut acc: i128 = 0;
    let mut ok = true;
    let mut last_nz: usize = usize::MAX;
    let mut i = 0;
    while i < res.len() {
        let d = res[i];
        acc += (d as i128) << i;
        if d != 0 {
            ok &= d & 1 == 1 && d < (1i64 << (w - 1)) && d > -(1i64 << (w - 1));
            ok &= last_nz == usize::MAX || i - last_nz >= w;
            last_nz = i;
        }
        i += 1;
    }
    ok && acc == value as i128
}

fn wnaf_small<const BITS: u32>(w: usize) {
    let v: u64 = any();
    assume(v < (1u64 << BITS));
    let res = BigInt::<1>([v]).find_wnaf(w).unwrap();
    crate::cover!(res.len() as u32 == BITS + 1);
    let ok = res.len() as u32 <= BITS + 1 && check_digits(&res, w, v as u128);
    core::mem::forget(res);
    assert!(ok);
}

fn wnaf_small_n2<const BITS: u32>(w: usize) {
    let v: u64 = any();
    assume(v < (1u64 << BITS));
    let res = BigInt::<2>([v, 0]).find_wnaf(w).unwrap();
    crate::cover!(res.len() as u32 == BITS + 1);
    let ok = res.len() as u32 <= BITS + 1 && check_digits(&res, w, v as u128);
    core::mem::forget(res);
    assert!(ok);
}

fn naf_digits_ok(res: &[i8], value: u128, relaxed: bool) -> bool {
    let mut acc: i128 = 0;
    let mut ok = true;
    let mut i = 0;
    let n = res.len();
    while i < n {
        let d = res[i];
        acc += (d as i128) << i;
        ok &= d == 0 || d == 1 || d == -1;
        // non-adjacent, except (relaxed) for the two most significant digits
        if i + 1 < n && d != 0 && res[i + 1] != 0 {
            ok &= relaxed && i + 2 == n;
        }
        i += 1;
    }
    ok &= n == 0 || res[n - 1] != 0;
    ok && acc == value as i128
}

fn naf_small<const BITS: u32>() {
    let v: u64 = any();
    assume(v < (1u64 << BITS));
    let res = find_naf(&[v]);
    crate::cover!(res.len() as u32 == BITS + 1);
    let ok = res.len() as u32 <= BITS + 1 && naf_digits_ok(&res, v as u128, false);
    core::mem::forget(res);
    assert!(ok);
}

fn relaxed_naf_small<const BITS: u32>(lo: u64) {
    let v: u64 = any();
    assume(v >= lo && v < (1u64 << BITS));
    let res = find_relaxed_naf(&[v]);
    crate::cover!(res.len() as u32 == BITS);
    let ok = res.len() as u32 <= BITS + 1 && naf_digits_ok(&res, v as u128, true);
    core::mem::forget(res);
    assert!(ok);
}

crate::harnesses! { REG;
    /// quick required | add_with_carry: all a,b in BigInt<1>: limbs and carry vs wide reference
    #[unwind(3)]
    fn c15_add_carry_n1() { add_carry::<1>() }
    /// quick required | add_with_carry: all a,b in BigInt<2>
    #[unwind(4)]
    fn c15_add_carry_n2() { add_carry::<2>() }
    /// quick required | add_with_carry: all a,b in BigInt<4>
    #[unwind(6)]
    fn c15_add_carry_n4() { add_carry::<4>() }
    /// quick required | add_with_carry: all a,b in BigInt<6>
    #[unwind(8)]
    fn c15_add_carry_n6() { add_carry::<6>() }
    /// quick required | add_with_carry: all a,b in BigInt<7> (first limb count beyond the unroll_for_loops(6) bound)
    #[unwind(9)]
    fn c15_add_carry_n7() { add_carry::<7>() }
    /// thorough required | add_with_carry: all a,b in BigInt<12>
    #[unwind(14)]
    fn c15_add_carry_n12() { add_carry::<12>() }
    /// thorough required | add_with_carry: all a,b in BigInt<13>
    #[unwind(15)]
    fn c15_add_carry_n13() { add_carry::<13>() }

    /// quick required | sub_with_borrow: all a,b in BigInt<1>
    #[unwind(3)]
    fn c15_sub_borrow_n1() { sub_borrow::<1>() }
    /// quick required | sub_with_borrow: all a,b in BigInt<2>
    #[unwind(4)]
    fn c15_sub_borrow_n2() { sub_borrow::<2>() }
    /// quick required | sub_with_borrow: all a,b in BigInt<4>
    #[unwind(6)]
    fn c15_sub_borrow_n4() { sub_borrow::<4>() }
    /// quick required | sub_with_borrow: all a,b in BigInt<6>
    #[unwind(8)]
    fn c15_sub_borrow_n6() { sub_borrow::<6>() }
    /// quick required | sub_with_borrow: all a,b in BigInt<7>
    #[unwind(9)]
    fn c15_sub_borrow_n7() { sub_borrow::<7>() }
    /// thorough required | sub_with_borrow: all a,b in BigInt<12>
    #[unwind(14)]
    fn c15_sub_borrow_n12() { sub_borrow::<12>() }
    /// thorough required | sub_with_borrow: all a,b in BigInt<13>
    #[unwind(15)]
    fn c15_sub_borrow_n13() { sub_borrow::<13>() }

    /// quick required | mul2 (value and carry) and div2 (every bit): all a in BigInt<1>
    #[unwind(3)]
    fn c15_mul2_div2_n1() { mul2_div2::<1>() }
    /// quick required | mul2 and div2: all a in BigInt<2>
    #[unwind(4)]
    fn c15_mul2_div2_n2() { mul2_div2::<2>() }
    /// quick required | mul2 and div2: all a in BigInt<4>
    #[unwind(6)]
    fn c15_mul2_div2_n4() { mul2_div2::<4>() }
    /// quick required | mul2 and div2: all a in BigInt<6>
    #[unwind(8)]
    fn c15_mul2_div2_n6() { mul2_div2::<6>() }
    /// thorough required | mul2 and div2: all a in BigInt<13>
    #[unwind(15)]
    fn c15_mul2_div2_n13() { mul2_div2::<13>() }

    /// quick required | muln / << / <<= : all a in BigInt<1>, all shifts 0..=128, every result bit
    #[unwind(4)]
    fn c15_shl_n1() { shl::<1>() }
    /// quick required | muln / << / <<= : all a in BigInt<2>, all shifts 0..=192, every result bit
    #[unwind(5)]
    fn c15_shl_n2() { shl::<2>() }
    /// quick required | muln / << / <<= : all a in BigInt<4>, all shifts 0..=320, every result bit
    #[unwind(7)]
    fn c15_shl_n4() { shl::<4>() }
    /// thorough required | muln / << / <<= : all a in BigInt<6>, all shifts 0..=448
    #[unwind(9)]
    fn c15_shl_n6() { shl::<6>() }
    /// thorough attempt | muln / << / <<= : all a in BigInt<13>, all shifts 0..=896
    #[unwind(16)]
    fn c15_shl_n13() { shl::<13>() }
    /// quick required | divn / >> / >>= : all a in BigInt<1>, all shifts 0..=128, every result bit
    #[unwind(4)]
    fn c15_shr_n1() { shr::<1>() }
    /// quick required | divn / >> / >>= : all a in BigInt<2>, all shifts 0..=192
    #[unwind(5)]
    fn c15_shr_n2() { shr::<2>() }
    /// quick required | divn / >> / >>= : all a in BigInt<4>, all shifts 0..=320
    #[unwind(7)]
    fn c15_shr_n4() { shr::<4>() }
    /// thorough required | divn / >> / >>= : all a in BigInt<6>, all shifts 0..=448
    #[unwind(9)]
    fn c15_shr_n6() { shr::<6>() }
    /// thorough attempt | divn / >> / >>= : all a in BigInt<13>, all shifts 0..=896
    #[unwind(16)]
    fn c15_shr_n13() { shr::<13>() }

    /// quick required | Ord/PartialOrd/==/is_zero/is_odd/is_even/mod_4 vs borrow of subtraction: all pairs BigInt<1>
    #[unwind(10)]
    fn c15_cmp_n1() { cmp_preds::<1>() }
    /// quick required | Ord etc.: all pairs BigInt<2>
    #[unwind(18)]
    fn c15_cmp_n2() { cmp_preds::<2>() }
    /// quick required | Ord etc.: all pairs BigInt<4>
    #[unwind(34)]
    fn c15_cmp_n4() { cmp_preds::<4>() }
    /// thorough required | Ord etc.: all pairs BigInt<6>
    #[unwind(50)]
    fn c15_cmp_n6() { cmp_preds::<6>() }

    /// quick required | get_bit (index up to 64N+3), num_bits, const_num_bits, ^ & | !, const_shr, divide_by_2_round_down: all of BigInt<1>, every bit
    #[unwind(3)]
    fn c15_bits_n1() { bits_and_logic::<1>() }
    /// quick required | get_bit, num_bits, bit operators: all of BigInt<2>
    #[unwind(4)]
    fn c15_bits_n2() { bits_and_logic::<2>() }
    /// quick required | get_bit, num_bits, bit operators: all of BigInt<4>
    #[unwind(6)]
    fn c15_bits_n4() { bits_and_logic::<4>() }
    /// thorough required | get_bit, num_bits, bit operators: all of BigInt<6>
    #[unwind(8)]
    fn c15_bits_n6() { bits_and_logic::<6>() }

    /// quick required | two_adic_valuation / two_adic_coefficient: all odd a > 1 in BigInt<1>: a-1 = 2^s*t, t odd
    #[unwind(66)]
    fn c15_two_adic_n1() { two_adic::<1>() }
    /// thorough required | two_adic_valuation / two_adic_coefficient: all odd a > 1 in BigInt<2>
    #[unwind(130)]
    fn c15_two_adic_n2() { two_adic::<2>() }

    /// quick required | From<u8/u16/u32/u64>, zero, one, default for BigInt<1>, <4>: all integer values
    #[unwind(6)]
    fn c15_from_ints() { from_ints::<1>(); from_ints::<4>() }

    /// quick required | from_bits_le / from_bits_be: BigInt<1>, all bool slices of length 0, 1, 7, every result bit
    #[unwind(10)]
    fn c15_from_bits_n1_short() { from_bits::<1, 0>(); from_bits::<1, 1>(); from_bits::<1, 7>() }
    /// quick required | from_bits_le / from_bits_be: BigInt<1>, all bool slices of length 63, 64 (exactly one limb)
    #[unwind(66)]
    fn c15_from_bits_n1_64() { from_bits::<1, 63>(); from_bits::<1, 64>() }
    /// quick required | from_bits_le / from_bits_be: BigInt<1>, all bool slices of length 65, 70 (bits past the capacity are dropped)
    #[unwind(72)]
    fn c15_from_bits_n1_over() { from_bits::<1, 65>(); from_bits::<1, 70>() }
    /// thorough required | from_bits_le / from_bits_be: BigInt<2>, all bool slices of length 64, 65, 127, 128, 129
    #[unwind(131)]
    fn c15_from_bits_n2() { from_bits::<2, 64>(); from_bits::<2, 65>(); from_bits::<2, 127>(); from_bits::<2, 128>(); from_bits::<2, 129>() }
    /// quick required | to_bits_le/be, to_bytes_le/be: all of BigInt<1>, every bit / byte position
    #[unwind(66)]
    fn c15_to_bits_bytes_n1() { to_bits_bytes::<1>() }
    /// thorough required | to_bits_le/be, to_bytes_le/be: all of BigInt<2>
    #[unwind(130)]
    fn c15_to_bits_bytes_n2() { to_bits_bytes::<2>() }

    /// quick required engine=W | mul / mul_low / mul_high: all a,b in BigInt<1> vs product-scanning reference (cvc5 word level)
    #[unwind(3)]
    fn c15_mul_n1() { mul_total::<1, 2>() }
    /// quick required engine=W | mul / mul_low / mul_high: all a,b in BigInt<2> vs product-scanning reference (cvc5 word level)
    #[unwind(4)]
    fn c15_mul_n2() { mul_total::<2, 4>() }
    /// thorough attempt engine=W timeout=3000 | mul / mul_low / mul_high: all a,b in BigInt<4> (cvc5 word level)
    #[unwind(6)]
    fn c15_mul_n4() { mul_total::<4, 8>() }
    /// quick required | mul / mul_low / mul_high BigInt<4>: narrow window (close to enumeration): all limbs 2^64-1 except limb 3 of each operand = 2^64-1 - s, s a symbolic nibble
    #[unwind(6)]
    fn c15_mul_window_n4_hi() { mul_window::<4, 8>(3, 3, 0b1111) }
    /// quick required | mul BigInt<4> narrow window: all limbs 0 except a[0] = s, b[3] = 2^64-1 - t, nibbles s,t symbolic
    #[unwind(6)]
    fn c15_mul_window_n4_lo() { mul_window::<4, 8>(0, 3, 0b1000) }
    /// thorough required | mul BigInt<4> narrow windows: all 16 fill/offset shapes x limb positions (0,0),(3,3),(0,3),(2,1), two symbolic nibbles each
    #[unwind(6)]
    fn c15_mul_window_n4_grid() {
        let shape: u8 = any();
        assume(shape < 16);
        let which: u8 = any();
        assume(which < 4);
        let (pa, pb) = match which { 0 => (0, 0), 1 => (3, 3), 2 => (0, 3), _ => (2, 1) };
        mul_window::<4, 8>(pa, pb, shape)
    }
    /// thorough required | mul BigInt<6> narrow windows: all 16 shapes, nibbles in limbs (5,5)
    #[unwind(8)]
    fn c15_mul_window_n6() {
        let shape: u8 = any();
        assume(shape < 16);
        mul_window::<6, 12>(5, 5, shape)
    }

    /// quick required | signed_mod_reduction(n, 2^w) for all n: u64 and w in 1..=8: result = n mod 2^w recentred into [-2^(w-1), 2^(w-1))
    #[unwind(2)]
    fn c15_signed_mod_reduction() {
        let n: u64 = any();
        let w: u32 = any();
        assume(w >= 1 && w <= 8);
        let m = 1u64 << w;
        let r = signed_mod_reduction(n, m);
        crate::cover!(r < 0);
        let ok = r >= -((m / 2) as i64) && r < (m / 2) as i64 && (r as u64).wrapping_sub(n) & (m - 1) == 0;
        assert!(ok);
    }

    /// quick required | find_wnaf(w) w=2: all values < 2^10 in BigInt<1>: digits reconstruct the value, odd, |d|<2^(w-1), non-adjacent
    #[unwind(13)]
    fn c15_wnaf_w2() { wnaf_small::<10>(2) }
    /// quick required | find_wnaf(w) w=3: all values < 2^10 in BigInt<1>
    #[unwind(13)]
    fn c15_wnaf_w3() { wnaf_small::<10>(3) }
    /// quick required | find_wnaf(w) w=4: all values < 2^10 in BigInt<2> (two limbs, high limb zero)
    #[unwind(13)]
    fn c15_wnaf_w4() { wnaf_small_n2::<10>(4) }
    /// quick required | find_wnaf(w) w=5: all values < 2^10 in BigInt<1>
    #[unwind(13)]
    fn c15_wnaf_w5() { wnaf_small::<10>(5) }
    /// thorough required | find_wnaf(w) w=6: all values < 2^12 in BigInt<1>
    #[unwind(15)]
    fn c15_wnaf_w6() { wnaf_small::<12>(6) }
    /// thorough required | find_wnaf(w) w=7: all values < 2^12 in BigInt<1>
    #[unwind(15)]
    fn c15_wnaf_w7() { wnaf_small::<12>(7) }
    /// thorough required | find_wnaf(w) w=8: all values < 2^12 in BigInt<1>
    #[unwind(15)]
    fn c15_wnaf_w8() { wnaf_small::<12>(8) }
    /// quick required | find_wnaf(w) returns None exactly for w outside 2..=63 (all w: usize, value 5)
    #[unwind(8)]
    fn c15_wnaf_none() {
        let w: usize = any();
        assume(w < 2 || w >= 64);
        crate::cover!(w == 64);
        let ok = BigInt::<1>([5]).find_wnaf(w).is_none();
        assert!(ok);
    }
    /// quick required | find_naf: all values < 2^10 (one limb): digits in {-1,0,1}, non-adjacent, reconstruct the value
    #[unwind(13)]
    fn c15_naf_small() { naf_small::<10>() }
    /// quick required | find_relaxed_naf: all values 3 <= v < 2^10: digits reconstruct the value, adjacency only at the top
    #[unwind(13)]
    fn c15_relaxed_naf_small() { relaxed_naf_small::<10>(3) }
    /// quick required | find_relaxed_naf on the values 0, 1, 2 (NAF shorter than three digits): no panic, reconstructs the value
    #[unwind(6)]
    fn c15_relaxed_naf_tiny() {
        let v: u64 = any();
        assume(v < 3);
        let res = find_relaxed_naf(&[v]);
        crate::cover!(v == 2);
        let ok = naf_digits_ok(&res, v as u128, true);
        core::mem::forget(res);
        assert!(ok);
    }
    /// thorough required | find_wnaf(w), w in 2..=5, on the wrap-around region 2^64 - s, s < 2^6 (BigInt<1>): the first signed digit overflows the limb
    #[unwind(68)]
    fn c15_wnaf_wrap_n1() {
        let s: u64 = any();
        assume(s >= 1 && s < 64);
        let w: usize = any();
        assume(w >= 2 && w <= 5);
        let v = 0u64.wrapping_sub(s);
        let res = BigInt::<1>([v]).find_wnaf(w).unwrap();
        crate::cover!(s == 1);
        let ok = check_digits(&res, w, v as u128);
        core::mem::forget(res);
        assert!(ok);
    }
    /// thorough required | find_naf on the wrap-around region 2^64 - s, s < 2^6 (one limb)
    #[unwind(68)]
    fn c15_naf_wrap_n1() {
        let s: u64 = any();
        assume(s >= 1 && s < 64);
        let v = 0u64.wrapping_sub(s);
        let res = find_naf(&[v]);
        crate::cover!(s == 1);
        let ok = naf_digits_ok(&res, v as u128, false);
        core::mem::forget(res);
        assert!(ok);
    }
    /// thorough required timeout=2400 | find_wnaf(3) and find_naf on 2^64 - s, s in 1..=4 (BigInt<1>): e += |z| overflows the limb in the first step
    #[unwind(68)]
    fn c15_wrap_quick_n1() {
        let s: u64 = any();
        assume(s >= 1 && s <= 4);
        let v = 0u64.wrapping_sub(s);
        let res = BigInt::<1>([v]).find_wnaf(3).unwrap();
        let res2 = find_naf(&[v]);
        crate::cover!(s == 1);
        let ok = check_digits(&res, 3, v as u128) && naf_digits_ok(&res2, v as u128, false);
        core::mem::forget((res, res2));
        assert!(ok);
    }
    /// thorough required timeout=3000 | find_naf on two-limb values with a saturated low limb 2^64 - s (s < 16) and a 6-bit high limb: the +1 of a negative digit must carry into the high limb
    #[unwind(74)]
    fn c15_naf_limb_carry_n2() {
        let h: u64 = any();
        assume(h < 64);
        let s: u64 = any();
        assume(s >= 1 && s < 16);
        let lo = 0u64.wrapping_sub(s);
        let res = find_naf(&[lo, h]);
        crate::cover!(h == 63 && s == 1);
        let ok = naf_digits_ok(&res, ((h as u128) << 64) | lo as u128, false);
        core::mem::forget(res);
        assert!(ok);
    }
    /// thorough required | find_wnaf(w), w in 2..=4, values with saturated low limb and a 6-bit high limb (carry across the limb boundary), BigInt<2>
    #[unwind(74)]
    fn c15_wnaf_limb_carry_n2() {
        let h: u64 = any();
        assume(h < 64);
        let s: u64 = any();
        assume(s >= 1 && s < 16);
        let w: usize = any();
        assume(w >= 2 && w <= 4);
        let lo = 0u64.wrapping_sub(s);
        let res = BigInt::<2>([lo, h]).find_wnaf(w).unwrap();
        crate::cover!(h == 63 && s == 1);
        let ok = check_digits(&res, w, ((h as u128) << 64) | lo as u128);
        core::mem::forget(res);
        assert!(ok);
    }
}
