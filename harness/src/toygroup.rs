//! Toy group implementing AdditiveGroup + PrimeGroup + ScalarMul + VariableBaseMSM: the free abelian group Z^L.
//! The generic scalar-multiplication / MSM algorithms touch group elements only through +, -, double, zero and never branch
//! on them, so with the unit vectors as bases their result must be the vector of the raw integer scalars.
use ark_ec::{scalar_mul::ScalarMul, PrimeGroup, VariableBaseMSM};
use ark_ff::{AdditiveGroup, PrimeField, UniformRand, Zero, BigInteger};
use ark_serialize::{CanonicalDeserialize, CanonicalSerialize, Compress, SerializationError, Valid, Validate};
use ark_std::{fmt, hash::Hash, marker::PhantomData, ops::*, rand::{distributions::{Distribution, Standard}, Rng}, vec::Vec, io::{Read, Write}};


/// the free abelian group Z^L (coordinates i64, CHECKED arithmetic: an overflow is a reported failure, so all arithmetic is exact)
#[derive(Copy, Clone, PartialEq, Eq, Hash, Debug)]
pub struct Z<F: PrimeField, const CHEAP: bool, const L: usize>(pub [i64; L], pub PhantomData<F>);
impl<F: PrimeField, const C: bool, const L: usize> Default for Z<F, C, L> { fn default() -> Self { Z([0; L], PhantomData) } }

impl<F: PrimeField, const C: bool, const L: usize> Z<F, C, L> {
    pub fn new(v: [i64; L]) -> Self { Z(v, PhantomData) }
    /// unit vector e_k
    pub fn unit(k: usize) -> Self { let mut v = [0i64; L]; v[k] = 1; Z(v, PhantomData) }
}
impl<F: PrimeField, const C: bool, const L: usize> fmt::Display for Z<F, C, L> { fn fmt(&self, f: &mut fmt::Formatter<'_>) -> fmt::Result { write!(f, "{:?}", self.0) } }
impl<F: PrimeField, const C: bool, const L: usize> zeroize::Zeroize for Z<F, C, L> { fn zeroize(&mut self) { self.0 = [0; L]; } }
impl<F: PrimeField, const C: bool, const L: usize> Distribution<Z<F, C, L>> for Standard { fn sample<R: Rng + ?Sized>(&self, rng: &mut R) -> Z<F, C, L> { Z::new(core::array::from_fn(|_| (rng.gen::<u8>() as i64))) } }
impl<F: PrimeField, const C: bool, const L: usize> CanonicalSerialize for Z<F, C, L> {
    fn serialize_with_mode<W: Write>(&self, w: W, c: Compress) -> Result<(), SerializationError> { self.0.serialize_with_mode(w, c) }
    fn serialized_size(&self, _c: Compress) -> usize { 8 * L }
}
impl<F: PrimeField, const C: bool, const L: usize> Valid for Z<F, C, L> { fn check(&self) -> Result<(), SerializationError> { Ok(()) } }
impl<F: PrimeField, const C: bool, const L: usize> CanonicalDeserialize for Z<F, C, L> {
    fn deserialize_with_mode<R: Read>(r: R, c: Compress, v: Validate) -> Result<Self, SerializationError> { Ok(Z::new(<[i64; L]>::deserialize_with_mode(r, c, v)?)) }
}
impl<F: PrimeField, const C: bool, const L: usize> Zero for Z<F, C, L> { fn zero() -> Self { Z::new([0; L]) } fn is_zero(&self) -> bool { let mut z = true; let mut i = 0; while i < L { z &= self.0[i] == 0; i += 1; } z } }
impl<F: PrimeField, const C: bool, const L: usize> Neg for Z<F, C, L> { type Output = Self; fn neg(self) -> Self { let mut v = self.0; let mut i = 0; while i < L { v[i] = -v[i]; i += 1; } Z::new(v) } }
impl<'a, F: PrimeField, const C: bool, const L: usize> AddAssign<&'a Self> for Z<F, C, L> { fn add_assign(&mut self, o: &Self) { let mut i = 0; while i < L { self.0[i] += o.0[i]; i += 1; } } }
impl<'a, F: PrimeField, const C: bool, const L: usize> SubAssign<&'a Self> for Z<F, C, L> { fn sub_assign(&mut self, o: &Self) { let mut i = 0; while i < L { self.0[i] -= o.0[i]; i += 1; } } }
impl<'a, F: PrimeField, const C: bool, const L: usize> MulAssign<&'a F> for Z<F, C, L> { fn mul_assign(&mut self, k: &F) { let b = k.into_bigint(); let lo = b.as_ref()[0]; let mut i = 0; while i < L { self.0[i] = self.0[i].checked_mul(lo as i64).unwrap(); i += 1; } } }
macro_rules! fwd {
    ($Tr:ident, $m:ident, $TrA:ident, $ma:ident) => {
        impl<F: PrimeField, const C: bool, const L: usize> $TrA<Self> for Z<F, C, L> { fn $ma(&mut self, o: Self) { self.$ma(&o) } }
        impl<'a, F: PrimeField, const C: bool, const L: usize> $TrA<&'a mut Self> for Z<F, C, L> { fn $ma(&mut self, o: &'a mut Self) { self.$ma(&*o) } }
        impl<F: PrimeField, const C: bool, const L: usize> $Tr<Self> for Z<F, C, L> { type Output = Self; fn $m(mut self, o: Self) -> Self { self.$ma(&o); self } }
        impl<'a, F: PrimeField, const C: bool, const L: usize> $Tr<&'a Self> for Z<F, C, L> { type Output = Self; fn $m(mut self, o: &'a Self) -> Self { self.$ma(o); self } }
        impl<'a, F: PrimeField, const C: bool, const L: usize> $Tr<&'a mut Self> for Z<F, C, L> { type Output = Self; fn $m(mut self, o: &'a mut Self) -> Self { self.$ma(&*o); self } }
    };
}
fwd!(Add, add, AddAssign, add_assign);
fwd!(Sub, sub, SubAssign, sub_assign);
impl<F: PrimeField, const C: bool, const L: usize> MulAssign<F> for Z<F, C, L> { fn mul_assign(&mut self, k: F) { self.mul_assign(&k) } }
impl<'a, F: PrimeField, const C: bool, const L: usize> MulAssign<&'a mut F> for Z<F, C, L> { fn mul_assign(&mut self, k: &'a mut F) { self.mul_assign(&*k) } }
impl<F: PrimeField, const C: bool, const L: usize> Mul<F> for Z<F, C, L> { type Output = Self; fn mul(mut self, k: F) -> Self { self.mul_assign(&k); self } }
impl<'a, F: PrimeField, const C: bool, const L: usize> Mul<&'a F> for Z<F, C, L> { type Output = Self; fn mul(mut self, k: &'a F) -> Self { self.mul_assign(k); self } }
impl<'a, F: PrimeField, const C: bool, const L: usize> Mul<&'a mut F> for Z<F, C, L> { type Output = Self; fn mul(mut self, k: &'a mut F) -> Self { self.mul_assign(&*k); self } }
impl<F: PrimeField, const C: bool, const L: usize> core::iter::Sum<Self> for Z<F, C, L> { fn sum<I: Iterator<Item = Self>>(i: I) -> Self { i.fold(Self::zero(), |a, b| a + b) } }
impl<'a, F: PrimeField, const C: bool, const L: usize> core::iter::Sum<&'a Self> for Z<F, C, L> { fn sum<I: Iterator<Item = &'a Self>>(i: I) -> Self { i.fold(Self::zero(), |a, b| a + b) } }
impl<F: PrimeField, const C: bool, const L: usize> AdditiveGroup for Z<F, C, L> { type Scalar = F; const ZERO: Self = Z([0; L], PhantomData);
    fn double_in_place(&mut self) -> &mut Self { let mut i = 0; while i < L { self.0[i] += self.0[i]; i += 1; } self } }
impl<F: PrimeField, const C: bool, const L: usize> PrimeGroup for Z<F, C, L> {
    type ScalarField = F;
    fn generator() -> Self { Z::unit(0) }
    fn mul_bigint(&self, other: impl AsRef<[u64]>) -> Self { self.mul_bits_be(ark_ff::BitIteratorBE::without_leading_zeros(other)) }
}
impl<F: PrimeField, const C: bool, const L: usize> ScalarMul for Z<F, C, L> {
    type MulBase = Self;
    const NEGATION_IS_CHEAP: bool = C;
    fn batch_convert_to_mul_base(bases: &[Self]) -> Vec<Self> { bases.to_vec() }
}
impl<F: PrimeField, const C: bool, const L: usize> VariableBaseMSM for Z<F, C, L> {}
