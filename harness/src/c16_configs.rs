//! C16 — every shipped field and curve configuration is internally consistent.
//! The configurations are closed (no free inputs): these are GROUND obligations — CBMC is used as an interpreter of the real
//! code on constants, against relations recomputed independently in this crate.  Only cheap relations are covered (see DESIGN.md).
use crate::refm;
use ark_ec::{short_weierstrass::SWCurveConfig, twisted_edwards::TECurveConfig, AffineRepr, CurveConfig};
use ark_ff::{AdditiveGroup, BigInt, BigInteger, FftField, Field, MontConfig, One, PrimeField, Zero};

/// 2^(64*N*k) mod m by shift-and-subtract on N+1 limbs (independent of BigInt::montgomery_r)
fn pow2_mod<const N: usize>(m: &[u64; N], times: usize) -> [u64; N] {
    let mut r = [0u64; N];
    r[0] = 1;
    // r = 1 (assumes m > 1); double `times` times with conditional subtraction
    let mut t = 0;
    while t < times {
        let mut carry = 0u64;
        let mut i = 0;
        while i < N {
            let nc = r[i] >> 63;
            r[i] = (r[i] << 1) | carry;
            carry = nc;
            i += 1;
        }
        if carry == 1 || !refm::lt(&r, m) {
            r = refm::sub_n(&r, m).0;
        }
        t += 1;
    }
    r
}
fn mont_consts<T: MontConfig<N>, const N: usize>() -> bool {
    let m = T::MODULUS.0;
    let r = pow2_mod::<N>(&m, 64 * N);
    let r2 = pow2_mod::<N>(&m, 128 * N);
    let spare = m[N - 1] >> 63 == 0;
    let mut all_ones = m[N - 1] == u64::MAX >> 1;
    let mut i = 0;
    while i + 1 < N {
        all_ones &= m[i] == u64::MAX;
        i += 1;
    }
    m[0].wrapping_mul(T::INV) == u64::MAX
        && refm::eq_n(&T::R.0, &r)
        && refm::eq_n(&T::R2.0, &r2)
        && T::MODULUS_HAS_SPARE_BIT == spare
        && T::CAN_USE_NO_CARRY_MUL_OPT == (spare && !all_ones)
        && m[0] & 1 == 1
}
/// two-adic root of unity has exactly order 2^s; TWO_ADICITY is the 2-adic valuation of p - 1
fn two_adic<F: PrimeField + FftField>() -> bool {
    let s = F::TWO_ADICITY;
    let mut x = F::TWO_ADIC_ROOT_OF_UNITY;
    let mut i = 1;
    while i < s {
        x.square_in_place();
        i += 1;
    }
    // now x = root^(2^(s-1)) must be -1, and its square 1
    let mut pm1 = F::MODULUS;
    pm1.sub_with_borrow(&F::BigInt::from(1u64));
    let mut val = 0;
    let mut t = pm1;
    while t.is_even() && val < 64 * 13 {
        t.div2();
        val += 1;
    }
    x == -F::one() && x.square().is_one() && val == s && F::MODULUS_BIT_SIZE == F::MODULUS.num_bits()
}
/// g has exact multiplicative order n: g^n = 1 and g^(n/q) != 1 for every prime q | n (plain repeated multiplication, n small)
fn exact_order<F: Field>(g: F, n: u64, primes: &[u64]) -> bool {
    let pw = |e: u64| {
        let mut r = F::one();
        let mut i = 0;
        while i < e {
            r *= g;
            i += 1;
        }
        r
    };
    let mut ok = pw(n).is_one();
    let mut j = 0;
    while j < primes.len() {
        ok &= n % primes[j] == 0 && !pw(n / primes[j]).is_one();
        j += 1;
    }
    ok
}
/// declared small subgroup b^k of a tiny prime field: the constants are the declared ones, 2^s * b^k divides p - 1 with s = v2(p - 1),
/// and the two roots of unity have EXACT orders 2^s and 2^s * b^k
fn small_subgroup_tiny<F: PrimeField + FftField>(p: u64, b: u32, k: u32) -> bool {
    let s = F::TWO_ADICITY;
    let n = (1u64 << s) * (b as u64).pow(k);
    let mut ok = F::SMALL_SUBGROUP_BASE == Some(b) && F::SMALL_SUBGROUP_BASE_ADICITY == Some(k);
    ok &= (p - 1) % n == 0 && ((p - 1) >> s) & 1 == 1;
    ok &= exact_order(F::TWO_ADIC_ROOT_OF_UNITY, 1 << s, &[2]);
    ok &= match F::LARGE_SUBGROUP_ROOT_OF_UNITY {
        Some(g) => exact_order(g, n, &[2, b as u64]),
        None => false,
    };
    ok
}
/// FFT parameters of an extension field are those of its base field, embedded
fn ext_fft<E: FftField, B: FftField>(embed: fn(B) -> E) -> bool {
    let mut ok = E::TWO_ADICITY == B::TWO_ADICITY && E::TWO_ADIC_ROOT_OF_UNITY == embed(B::TWO_ADIC_ROOT_OF_UNITY) && E::GENERATOR == embed(B::GENERATOR);
    ok &= E::SMALL_SUBGROUP_BASE == B::SMALL_SUBGROUP_BASE && E::SMALL_SUBGROUP_BASE_ADICITY == B::SMALL_SUBGROUP_BASE_ADICITY;
    ok &= match (E::LARGE_SUBGROUP_ROOT_OF_UNITY, B::LARGE_SUBGROUP_ROOT_OF_UNITY) {
        (Some(x), Some(y)) => x == embed(y),
        (None, None) => true,
        _ => false,
    };
    ok
}
fn sw_curve<C: SWCurveConfig>() -> bool
where
    C::ScalarField: PrimeField,
{
    let g = C::GENERATOR;
    // COFACTOR * COFACTOR_INV = 1 in the scalar field (cofactor given as limbs, reduced through from_le_bytes-free Horner)
    let mut h = C::ScalarField::zero();
    let base = C::ScalarField::from(u64::MAX) + C::ScalarField::one();
    let mut i = C::COFACTOR.len();
    while i > 0 {
        i -= 1;
        h = h * base + C::ScalarField::from(C::COFACTOR[i]);
    }
    g.is_on_curve() && !g.is_zero() && (h * C::COFACTOR_INV).is_one()
}
fn te_curve<C: TECurveConfig>() -> bool {
    let g = C::GENERATOR;
    let mut h = C::ScalarField::zero();
    let base = C::ScalarField::from(u64::MAX) + C::ScalarField::one();
    let mut i = C::COFACTOR.len();
    while i > 0 {
        i -= 1;
        h = h * base + C::ScalarField::from(C::COFACTOR[i]);
    }
    g.is_on_curve() && !g.is_zero() && (h * C::COFACTOR_INV).is_one()
}

crate::harnesses! { REG;
    /// quick required | ground: Montgomery constants (INV, R, R2 vs independent shift-and-subtract; spare-bit and no-carry flags) of every field configuration of test-curves: bls12_381 Fq/Fr, mnt4_753 Fq/Fr, bn384 Fq/Fr, secp256k1 Fq/Fr, ed_on_bls12_381 Fr, fp128
    #[unwind(1700)]
    fn c16_mont_consts_test_curves() {
        use ark_test_curves::*;
        crate::cover!(true);
        let ok = mont_consts::<bls12_381::FqConfig, 6>() && mont_consts::<bls12_381::FrConfig, 4>()
            && mont_consts::<mnt4_753::FqConfig, 12>() && mont_consts::<mnt4_753::FrConfig, 12>()
            && mont_consts::<bn384_small_two_adicity::FqConfig, 6>() && mont_consts::<bn384_small_two_adicity::FrConfig, 6>()
            && mont_consts::<secp256k1::FqConfig, 4>() && mont_consts::<secp256k1::FrConfig, 4>()
            && mont_consts::<ed_on_bls12_381::FrConfig, 4>() && mont_consts::<fp128::FqConfig, 2>();
        assert!(ok);
    }
    /// quick required | ground: Montgomery constants of curves/bls12_381 Fq, Fr and of the harness-crate configurations (derive and hand-written) used by C01
    #[unwind(1700)]
    fn c16_mont_consts_other() {
        use crate::fields::*;
        crate::cover!(true);
        let ok = mont_consts::<ark_bls12_381::FqConfig, 6>() && mont_consts::<ark_bls12_381::FrConfig, 4>()
            && mont_consts::<DGoldConfig, 1>() && mont_consts::<HGoldConfig, 1>() && mont_consts::<DW128Config, 2>() && mont_consts::<HM127Config, 2>()
            && mont_consts::<DT63Config, 2>() && mont_consts::<HSecpConfig, 4>() && mont_consts::<DW800Config, 13>();
        assert!(ok);
    }
    /// quick required | ground: TWO_ADICITY = v2(p-1), MODULUS_BIT_SIZE, and TWO_ADIC_ROOT_OF_UNITY has EXACT order 2^s (s-1 squarings give -1) for bls12_381 Fr (s = 32), secp256k1 Fq/Fr, ed_on_bls12_381 Fr, fp128 (test-curves) and curves/bls12_381 Fr
    #[unwind(900)]
    fn c16_two_adic_roots() {
        use ark_test_curves::*;
        crate::cover!(true);
        let ok = two_adic::<bls12_381::Fr>() && two_adic::<secp256k1::Fq>() && two_adic::<secp256k1::Fr>() && two_adic::<ed_on_bls12_381::Fr>()
            && two_adic::<fp128::Fq>() && two_adic::<ark_bls12_381::Fr>();
        assert!(ok);
    }
    /// thorough required timeout=3000 | ground: two-adic roots for bls12_381 Fq, mnt4_753 Fq/Fr (12 limbs), bn384 Fq/Fr, curves/bls12_381 Fq
    #[unwind(900)]
    fn c16_two_adic_roots_more() {
        use ark_test_curves::*;
        crate::cover!(true);
        let ok = two_adic::<bls12_381::Fq>() && two_adic::<mnt4_753::Fq>() && two_adic::<mnt4_753::Fr>() && two_adic::<bn384_small_two_adicity::Fq>()
            && two_adic::<bn384_small_two_adicity::Fr>() && two_adic::<ark_bls12_381::Fq>();
        assert!(ok);
    }
    /// quick required | ground: declared small subgroups (derive attributes small_subgroup_base / _power) of the tiny fields F_73 (3^2) and F_97 (3^1): SMALL_SUBGROUP_BASE / _ADICITY are the declared values, TWO_ADIC_ROOT_OF_UNITY and LARGE_SUBGROUP_ROOT_OF_UNITY have EXACT orders 2^s and 2^s * 3^k
    #[unwind(100)]
    fn c16_small_subgroup_tiny() {
        use crate::fields::*;
        crate::cover!(true);
        let ok = small_subgroup_tiny::<DF73>(73, 3, 2) && small_subgroup_tiny::<DF97>(97, 3, 1);
        assert!(ok);
    }
    /// quick required | ground: FftField constants of extension fields are the embedded base-field constants (TWO_ADICITY, both roots of unity, GENERATOR, SMALL_SUBGROUP_BASE and _ADICITY kept apart): Fp2 and Fp3 over F_73 (small subgroup 3^2), test-curves mnt6_753 Fq3 (base field with small subgroup 5^2), bls12_381 Fq2 / Fq6 / Fq12
    #[unwind(100)]
    fn c16_ext_fft_consts() {
        use crate::fields::*;
        use crate::towers::*;
        use ark_ff::{Fp2, Fp3};
        use ark_test_curves::{bls12_381 as b, mnt6_753 as m6};
        crate::cover!(true);
        let ok = ext_fft::<S73_2, DF73>(|x| Fp2::new(x, DF73::ZERO))
            && ext_fft::<S73_3, DF73>(|x| Fp3::new(x, DF73::ZERO, DF73::ZERO))
            && <S73_3 as FftField>::SMALL_SUBGROUP_BASE == Some(3)
            && <S73_3 as FftField>::SMALL_SUBGROUP_BASE_ADICITY == Some(2)
            && <S73_2 as FftField>::SMALL_SUBGROUP_BASE == Some(3)
            && <S73_2 as FftField>::SMALL_SUBGROUP_BASE_ADICITY == Some(2)
            && ext_fft::<m6::Fq3, m6::Fq>(|x| m6::Fq3::new(x, m6::Fq::ZERO, m6::Fq::ZERO))
            && <m6::Fq3 as FftField>::SMALL_SUBGROUP_BASE == Some(5)
            && <m6::Fq3 as FftField>::SMALL_SUBGROUP_BASE_ADICITY == Some(2)
            && ext_fft::<b::Fq2, b::Fq>(|x| b::Fq2::new(x, b::Fq::ZERO))
            && ext_fft::<b::Fq6, b::Fq2>(|x| b::Fq6::new(x, b::Fq2::ZERO, b::Fq2::ZERO))
            && ext_fft::<b::Fq12, b::Fq6>(|x| b::Fq12::new(x, b::Fq6::ZERO));
        assert!(ok);
    }
    /// quick required | ground: the SWU-isogenous helper curves of test-curves bls12_381 (g1_swu_iso, g2_swu_iso): generator on the curve, COFACTOR * COFACTOR_INV = 1 (mod r), ZETA is a quadratic non-residue candidate with a*b != 0
    #[unwind(70)]
    fn c16_swu_iso_curves() {
        use ark_test_curves::bls12_381::{g1_swu_iso, g2_swu_iso};
        crate::cover!(true);
        let ok = sw_curve::<g1_swu_iso::SwuIsoConfig>() && sw_curve::<g2_swu_iso::SwuIsoConfig>()
            && !<g1_swu_iso::SwuIsoConfig as SWCurveConfig>::COEFF_A.is_zero() && !<g1_swu_iso::SwuIsoConfig as SWCurveConfig>::COEFF_B.is_zero()
            && !<g2_swu_iso::SwuIsoConfig as SWCurveConfig>::COEFF_A.is_zero() && !<g2_swu_iso::SwuIsoConfig as SWCurveConfig>::COEFF_B.is_zero();
        assert!(ok);
    }
    /// quick required | ground: curve generators lie on their curve and COFACTOR * COFACTOR_INV = 1 (mod r): test-curves bls12_381 G1/G2, secp256k1, bn384 G1, ed_on_bls12_381; curves/bls12_381 G1/G2
    #[unwind(70)]
    fn c16_generators_cofactors() {
        use ark_test_curves::*;
        crate::cover!(true);
        let ok = sw_curve::<bls12_381::g1::Config>() && sw_curve::<bls12_381::g2::Config>() && sw_curve::<secp256k1::Config>()
            && sw_curve::<bn384_small_two_adicity::g1::Config>() && te_curve::<ed_on_bls12_381::EdwardsConfig>()
            && sw_curve::<ark_bls12_381::g1::Config>() && sw_curve::<ark_bls12_381::g2::Config>();
        assert!(ok);
    }
}
