//! Kani harness crate for arkworks-rs/algebra (see /verif/DESIGN.md).
//! Every harness is an ordinary function drawing inputs through `sym::any`, so that it can be
//! (a) decided by CBMC under `cfg(kani)` and (b) replayed natively on recorded values.
#![allow(dead_code, unused_imports, clippy::all)]

#[macro_use]
pub mod macros;
pub mod sym;
pub mod refm;
pub mod fields;
pub mod plain;
pub mod toygroup;
pub mod towers;
pub mod toy_curves;

#[cfg(feature = "c01")]
pub mod c01_field;
#[cfg(any(feature = "c02", feature = "c03", feature = "c04", feature = "c09", feature = "c10", feature = "c11", feature = "c12", feature = "c13", feature = "c19"))]
pub mod c02_towers;
#[cfg(any(feature = "c03", feature = "c04", feature = "c09", feature = "c10", feature = "c11", feature = "c12", feature = "c13", feature = "c19"))]
pub mod c03_curves;
#[cfg(feature = "c04")]
pub mod c04_scalar_mul;
#[cfg(feature = "c05")]
pub mod c05_msm;
#[cfg(feature = "c07")]
pub mod c07_fft;
#[cfg(feature = "c08")]
pub mod c08_poly;
#[cfg(any(feature = "c09", feature = "c10"))]
pub mod c09_serialize;
#[cfg(feature = "c10")]
pub mod c10_deserialize;
#[cfg(feature = "c11")]
pub mod c11_sqrt;
#[cfg(feature = "c12")]
pub mod c12_subgroup;
#[cfg(feature = "c13")]
pub mod c13_hashing;
#[cfg(feature = "c16")]
pub mod c16_configs;
#[cfg(feature = "c17")]
pub mod c17_multilinear;
#[cfg(feature = "c19")]
pub mod c19_eq_ord_hash;
#[cfg(feature = "c20")]
pub mod c20_literals;
#[cfg(feature = "c15")]
pub mod c15_bigint;
#[cfg(feature = "c18")]
pub mod c18_containers;

/// name -> harness function, for native replay
#[cfg(not(kani))]
pub fn registry() -> std::vec::Vec<(&'static str, fn())> {
    let mut v: std::vec::Vec<(&'static str, fn())> = std::vec::Vec::new();
    #[cfg(feature = "c01")]
    v.extend_from_slice(c01_field::REG);
    #[cfg(feature = "c02")]
    v.extend_from_slice(c02_towers::REG);
    #[cfg(feature = "c03")]
    v.extend_from_slice(c03_curves::REG);
    #[cfg(feature = "c03")]
    v.extend_from_slice(c03_curves::REGEXT);
    #[cfg(feature = "c04")]
    v.extend_from_slice(c04_scalar_mul::REG);
    #[cfg(feature = "c05")]
    v.extend_from_slice(c05_msm::REG);
    #[cfg(feature = "c07")]
    v.extend_from_slice(c07_fft::REG);
    #[cfg(feature = "c08")]
    v.extend_from_slice(c08_poly::REG);
    #[cfg(feature = "c09")]
    v.extend_from_slice(c09_serialize::REG);
    #[cfg(feature = "c10")]
    v.extend_from_slice(c10_deserialize::REG);
    #[cfg(feature = "c11")]
    v.extend_from_slice(c11_sqrt::REG);
    #[cfg(feature = "c12")]
    v.extend_from_slice(c12_subgroup::REG);
    #[cfg(feature = "c13")]
    v.extend_from_slice(c13_hashing::REG);
    #[cfg(feature = "c16")]
    v.extend_from_slice(c16_configs::REG);
    #[cfg(feature = "c17")]
    v.extend_from_slice(c17_multilinear::REG);
    #[cfg(feature = "c19")]
    v.extend_from_slice(c19_eq_ord_hash::REG);
    #[cfg(feature = "c20")]
    v.extend_from_slice(c20_literals::REG);
    #[cfg(feature = "c15")]
    v.extend_from_slice(c15_bigint::REG);
    #[cfg(feature = "c18")]
    v.extend_from_slice(c18_containers::REG);
    v
}
