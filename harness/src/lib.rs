//! Kani harness crate for arkworks-rs/algebra (see /verif/DESIGN.md).
//! Every harness is an ordinary function drawing inputs through `sym::any`, so that it can be
//! (a) decided by CBMC under `cfg(kani)` and (b) replayed natively on recorded values.
#![allow(dead_code, unused_imports, clippy::all)]

#[macro_use]
pub mod macros;
pub mod sym;
pub mod refm;
pub mod fields;
pub mod plain;
pub mod toygroup;
pub mod toy_curves;

#[cfg(feature = "c01")]
pub mod c01_field;
#[cfg(any(feature = "c03", feature = "c04", feature = "c09", feature = "c10", feature = "c12", feature = "c19"))]
pub mod c03_curves;
#[cfg(feature = "c05")]
pub mod c05_msm;
#[cfg(feature = "c15")]
pub mod c15_bigint;
#[cfg(feature = "c18")]
pub mod c18_containers;

/// name -> harness function, for native replay
#[cfg(not(kani))]
pub fn registry() -> std::vec::Vec<(&'static str, fn())> {
    let mut v: std::vec::Vec<(&'static str, fn())> = std::vec::Vec::new();
    #[cfg(feature = "c01")]
    v.extend_from_slice(c01_field::REG);
    #[cfg(feature = "c03")]
    v.extend_from_slice(c03_curves::REG);
    #[cfg(feature = "c05")]
    v.extend_from_slice(c05_msm::REG);
    #[cfg(feature = "c15")]
    v.extend_from_slice(c15_bigint::REG);
    #[cfg(feature = "c18")]
    v.extend_from_slice(c18_containers::REG);
    v
}
