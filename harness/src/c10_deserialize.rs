//! C10 — checked deserialization only yields valid group elements and never panics.
//! EVERY byte string of length 0..=advertised size is offered to the deserializers of toy-curve points and tiny fields;
//! panics / overflows are CBMC properties; accepted values are compared with a brute-force decoding oracle.
use crate::c03_curves::*;
use crate::c09_serialize::any_mode;
use crate::fields::*;
use crate::sym::{any, assume};
use crate::toy_curves::*;
use ark_ec::{
    short_weierstrass::{self as sw, SWCurveConfig},
    twisted_edwards::{self as te, TECurveConfig},
    AffineRepr,
};
use ark_serialize::{CanonicalDeserialize, Compress, Validate};

/// index of the affine point (x, y) in the table, if it is on the curve
fn find<C: Toy>(x: u32, y: u32) -> Option<usize> {
    let mut r = None;
    let mut i = 1;
    while i < C::T.n {
        if C::T.pts[i] == (x, y) {
            r = Some(i);
        }
        i += 1;
    }
    r
}
/// the point with abscissa x whose ordinate is the smaller (positive = true) / larger of the two roots
fn find_by_x<C: Toy>(x: u32, positive: bool) -> Option<usize> {
    let p = C::T.p;
    let mut r = None;
    let mut i = 1;
    while i < C::T.n {
        let (px, py) = C::T.pts[i];
        let neg = (p - py) % p;
        if px == x && ((positive && py <= neg) || (!positive && py >= neg)) {
            r = Some(i);
        }
        i += 1;
    }
    r
}

/// SW over a <= 6-bit base field: compressed = 1 byte (x | flags<<6), uncompressed = x byte, then y byte with flags
fn sw_any_bytes<C: SWCurveConfig + Toy>()
where
    C::BaseField: Tiny,
{
    let bytes: [u8; 2] = any();
    let len: usize = any();
    assume(len <= 2);
    let (c, v) = any_mode();
    let mut rd: &[u8] = &bytes[..len];
    let res = sw::Affine::<C>::deserialize_with_mode(&mut rd, c, v);
    let consumed = len - rd.len();
    let p = C::T.p;
    // brute-force decoding
    let (need, want): (usize, Option<usize>) = match c {
        Compress::Yes => {
            let b = bytes[0];
            let (neg, inf, x) = (b >> 7 == 1, (b >> 6) & 1 == 1, (b & 0x3f) as u32);
            (1, if neg && inf || x >= p { None } else if inf { Some(0) } else { find_by_x::<C>(x, !neg) })
        },
        Compress::No => {
            let (x, b) = (bytes[0] as u32, bytes[1]);
            let (neg, inf, y) = (b >> 7 == 1, (b >> 6) & 1 == 1, (b & 0x3f) as u32);
            // with validation off any (x, y) pair of reduced coordinates is returned as-is (documented: unchecked)
            (2, if neg && inf || x >= p || y >= p { None } else if inf { Some(0) } else { find::<C>(x, y) })
        },
    };
    let valid = matches!(v, Validate::Yes);
    crate::cover!(res.is_ok() && len == need && valid);
    crate::cover!(res.is_err() && len == need);
    crate::cover!(len < need);
    let ok = match &res {
        Ok(q) => {
            let mut good = len >= need && consumed == need;
            if valid || matches!(c, Compress::Yes) {
                // a returned point is the decoded curve point; with validation it also lies in the prime-order subgroup
                good &= match want {
                    Some(i) => sw_aff_is(q, i) && (!valid || C::T.insub[i]),
                    None => false,
                };
            }
            good
        },
        Err(_) => {
            // rejection must be justified: truncated, malformed, off-curve / no root, or (validated) outside the subgroup
            len < need || match want {
                None => true,
                Some(i) => valid && !C::T.insub[i],
            }
        },
    };
    assert!(ok);
}
/// TE over a <= 6-bit base field: compressed = 1 byte (y | xneg<<7), uncompressed = x byte, y byte
fn te_any_bytes<C: TECurveConfig + Toy>()
where
    C::BaseField: Tiny,
{
    let bytes: [u8; 2] = any();
    let len: usize = any();
    assume(len <= 2);
    let (c, v) = any_mode();
    let mut rd: &[u8] = &bytes[..len];
    let res = te::Affine::<C>::deserialize_with_mode(&mut rd, c, v);
    let consumed = len - rd.len();
    let p = C::T.p;
    let (need, want): (usize, Option<usize>) = match c {
        Compress::Yes => {
            let b = bytes[0];
            let (neg, y) = (b >> 7 == 1, (b & 0x7f) as u32);
            let mut r = None;
            let mut i = 0;
            while i < C::T.n {
                let (px, py) = C::T.pts[i];
                let nx = (p - px) % p;
                if y < p && py == y && ((!neg && px <= nx) || (neg && px >= nx)) {
                    r = Some(i);
                }
                i += 1;
            }
            (1, r)
        },
        Compress::No => {
            let (x, y) = (bytes[0] as u32, bytes[1] as u32);
            let mut r = None;
            let mut i = 0;
            while i < C::T.n {
                if x < p && y < p && C::T.pts[i] == (x, y) {
                    r = Some(i);
                }
                i += 1;
            }
            (2, r)
        },
    };
    let valid = matches!(v, Validate::Yes);
    crate::cover!(res.is_ok() && len == need && valid);
    crate::cover!(res.is_err() && len == need);
    let ok = match &res {
        Ok(q) => {
            let mut good = len >= need && consumed == need;
            if valid || matches!(c, Compress::Yes) {
                good &= match want {
                    Some(i) => *q == te_affine::<C>(i) && (!valid || C::T.insub[i]),
                    None => false,
                };
            }
            good
        },
        Err(_) => {
            len < need || match want {
                None => true,
                Some(i) => valid && !C::T.insub[i],
            }
        },
    };
    assert!(ok);
}
fn field_any_bytes<F: Tiny + CanonicalDeserialize, const L: usize>() {
    let bytes: [u8; L] = any();
    let len: usize = any();
    assume(len <= L);
    let (c, v) = any_mode();
    let mut rd: &[u8] = &bytes[..len];
    let res = F::deserialize_with_mode(&mut rd, c, v);
    let consumed = len - rd.len();
    let need = (F::BITS as usize + 7) / 8;
    let mut val: u64 = 0;
    let mut i = 0;
    while i < need && i < L {
        val |= (bytes[i] as u64) << (8 * i);
        i += 1;
    }
    crate::cover!(res.is_ok());
    crate::cover!(res.is_err() && len >= need);
    let ok = match res {
        Ok(x) => len >= need && consumed == need && x.limb() < F::P as u64 && x.val() as u64 == val,
        Err(_) => len < need || val >= F::P as u64,
    };
    assert!(ok);
}

crate::harnesses! { REG;
    /// quick required unwindset=sw_double_and_add:5,>::pow:6,SqrtPrecomputation:7 | SW cofactor 4 over F_13: EVERY byte string of length 0..=2 in all 4 modes: never panics, consumes exactly the advertised size; Ok(point) <=> brute-force decoding succeeds (on curve; with validation also in the prime-order subgroup); both-flags-set, non-reduced x, x without root, off-curve and out-of-subgroup encodings are rejected
    #[unwind(70)]
    fn c10_sw_bytes_cof4() { sw_any_bytes::<SwCof4>() }
    /// quick required unwindset=sw_double_and_add:5,>::pow:6,SqrtPrecomputation:7 | SW b = 0 cofactor 4 over F_13: EVERY byte string of length 0..=2 in all 4 modes (x = 0 decodes to the order-two point (0, 0), not the identity)
    #[unwind(70)]
    fn c10_sw_bytes_b0() { sw_any_bytes::<SwB0>() }
    /// quick required unwindset=sw_double_and_add:5,>::pow:6,SqrtPrecomputation:7 | SW a=0 cofactor 1 over F_13: EVERY byte string of length 0..=2 in all 4 modes
    #[unwind(70)]
    fn c10_sw_bytes_a0() { sw_any_bytes::<SwA0>() }
    /// quick required unwindset=TECurveConfig>::mul_:5,>::pow:6,SqrtPrecomputation:7 | TE complete cofactor 4 over F_13: EVERY byte string of length 0..=2 in all 4 modes: no panic; accepted points decode correctly and (validated) lie in the subgroup
    #[unwind(70)]
    fn c10_te_bytes_complete() { te_any_bytes::<TeC>() }
    /// quick required unwindset=TECurveConfig>::mul_:5,>::pow:6,SqrtPrecomputation:7 | TE with incomplete law (d square: the decompression denominator 1 - d y^2 ... can vanish) over F_17: EVERY byte string of length 0..=2: no panic (Err instead), accepted points decode correctly
    #[unwind(70)]
    fn c10_te_bytes_incomplete() { te_any_bytes::<TeInc>() }
    /// thorough required unwindset=TECurveConfig>::mul_:5,>::pow:6,SqrtPrecomputation:7 | TE complete cofactor 8 over F_17: EVERY byte string of length 0..=2 in all 4 modes
    #[unwind(70)]
    fn c10_te_bytes_cof8() { te_any_bytes::<TeC8>() }
    /// quick required | field elements F_13, F_251 (hand-written), F_65521: EVERY byte string of length 0..=size+1: Ok(x) <=> the little-endian integer is < p (and x is that integer), never panics, consumes exactly the advertised size
    #[unwind(12)]
    fn c10_field_bytes() { field_any_bytes::<DF13, 2>(); field_any_bytes::<HF251, 2>(); field_any_bytes::<DF65521, 3>() }
}
