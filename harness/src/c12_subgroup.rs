//! C12 — subgroup membership tests and cofactor clearing agree with their definitions (default implementations, toy curves).
use crate::c03_curves::*;
use crate::fields::*;
use crate::sym::{any, assume};
use crate::toy_curves::*;
use ark_ec::{
    short_weierstrass::{self as sw, SWCurveConfig},
    twisted_edwards::{self as te, TECurveConfig},
    AffineRepr, CurveGroup,
};

fn sw_subgroup<C: SWCurveConfig + Toy>()
where
    C::BaseField: Tiny,
{
    let i = any_index::<C>();
    let a = sw_affine::<C>(i);
    let t = &C::T;
    let member = a.is_in_correct_subgroup_assuming_on_curve();
    let cleared = a.clear_cofactor();
    let mulh = a.mul_by_cofactor();
    let mulh_g = a.mul_by_cofactor_to_group();
    let want = t.mul_ix(t.h, i);
    crate::cover!(i != 0 && !t.insub[i] && t.ord[i] == 2);
    crate::cover!(i != 0 && t.insub[i]);
    let mut ok = member == t.insub[i];
    ok &= sw_aff_is(&cleared, want) && sw_aff_is(&mulh, want) && sw_is(&mulh_g, want) && t.insub[want];
    // on the subgroup, multiplying by the cofactor and by its inverse mod r compose to the identity
    if t.insub[i] {
        ok &= sw_aff_is(&mulh.mul_by_cofactor_inv(), i) && sw_aff_is(&a.mul_by_cofactor_inv().mul_by_cofactor(), i);
    }
    assert!(ok);
}
fn te_subgroup<C: TECurveConfig + Toy>()
where
    C::BaseField: Tiny,
{
    let i = any_index::<C>();
    let a = te_affine::<C>(i);
    let t = &C::T;
    let member = a.is_in_correct_subgroup_assuming_on_curve();
    let cleared = a.clear_cofactor();
    let mulh = a.mul_by_cofactor();
    let want = t.mul_ix(t.h, i);
    crate::cover!(i != 0 && !t.insub[i] && t.ord[i] == 2);
    crate::cover!(i != 0 && t.insub[i]);
    let mut ok = member == t.insub[i];
    ok &= cleared == te_affine::<C>(want) && mulh == te_affine::<C>(want) && t.insub[want];
    if t.insub[i] {
        ok &= mulh.mul_by_cofactor_inv() == a;
    }
    assert!(ok);
}

crate::harnesses! { REG;
    /// quick required unwindset=sw_double_and_add:7 | SW cofactor 4 (order 20, r = 5) — default implementations: for ALL points of E(F_13) (mostly outside the subgroup, 2- and 4-torsion included): membership test <=> r*P = O; clear_cofactor / mul_by_cofactor = 4*P and lands in the subgroup; cofactor * cofactor_inv = id on the subgroup
    #[unwind(66)]
    fn c12_sw_cof4() { sw_subgroup::<SwCof4>() }
    /// quick required unwindset=sw_double_and_add:7 | SW b = 0 (order 20, full 2-torsion, r = 5) — default implementations: ALL points
    #[unwind(66)]
    fn c12_sw_b0() { sw_subgroup::<SwB0>() }
    /// quick required unwindset=sw_double_and_add:7 | SW cofactor 1 (order 19): membership is true for ALL points (short-circuit), clearing is the identity map
    #[unwind(66)]
    fn c12_sw_cof1() { sw_subgroup::<SwA0>() }
    /// quick required unwindset=TECurveConfig>::mul_:7 | TE complete cofactor 4 (order 20, r = 5): membership, clearing, cofactor inverse for ALL points of the curve
    #[unwind(66)]
    fn c12_te_cof4() { te_subgroup::<TeC>() }
    /// thorough required timeout=2400 unwindset=TECurveConfig>::mul_:7 | TE complete cofactor 8 (order 24, r = 3) over F_17: membership, clearing, cofactor inverse for ALL points
    #[unwind(66)]
    fn c12_te_cof8() { te_subgroup::<TeC8>() }
}
