//! C02 — extension towers implement arithmetic of F_p[X]/(X^k - beta).
//! Oracle: schoolbook polynomial arithmetic modulo the defining binomials over integers mod p (u32), written independently
//! of ark_ff (`O*` types below).  ALL coordinates of every operand are symbolic, so zero components, base-field and
//! subfield elements are inside the quantifier.
use crate::fields::Tiny;
use crate::plain::*;
use crate::sym::{any, assume};
use crate::towers::*;
use ark_ff::{fields::fp6_2over3, AdditiveGroup, CyclotomicMultSubgroup, Field, Fp12, Fp2, Fp3, Fp4, Fp6, One, Zero};
use core::marker::PhantomData;

// ---- oracle tower -----------------------------------------------------------------------------------------
pub trait OF: Copy + PartialEq {
    fn zero() -> Self;
    fn one() -> Self;
    fn add(self, o: Self) -> Self;
    fn sub(self, o: Self) -> Self;
    fn mul(self, o: Self) -> Self;
    fn any() -> Self;
    /// coordinates whose bit in `mask` (consumed LSB first, in coordinate order) is set are symbolic, the others are zero
    fn any_masked(mask: &mut u32) -> Self;
    fn is_zero(self) -> bool {
        self == Self::zero()
    }
    fn pow(self, mut e: u32) -> Self {
        let (mut r, mut b) = (Self::one(), self);
        while e > 0 {
            if e & 1 == 1 {
                r = r.mul(b);
            }
            b = b.mul(b);
            e >>= 1;
        }
        r
    }
}
#[derive(Copy, Clone, PartialEq, Debug)]
pub struct OP<const Q: u32>(pub u32);
impl<const Q: u32> OF for OP<Q> {
    fn zero() -> Self {
        OP(0)
    }
    fn one() -> Self {
        OP(1)
    }
    fn add(self, o: Self) -> Self {
        OP((self.0 + o.0) % Q)
    }
    fn sub(self, o: Self) -> Self {
        OP((self.0 + Q - o.0) % Q)
    }
    fn mul(self, o: Self) -> Self {
        OP((self.0 * o.0) % Q)
    }
    fn any() -> Self {
        let v: u32 = any();
        let v = v & 0xf;
        assume(v < Q);
        OP(v)
    }
    fn any_masked(mask: &mut u32) -> Self {
        let sym = *mask & 1 == 1;
        *mask >>= 1;
        if sym { Self::any() } else { OP(0) }
    }
}
pub trait NR<B>: Copy + PartialEq {
    fn nr() -> B;
}
/// B[X]/(X^K - nr), schoolbook
#[derive(Copy, Clone, PartialEq, Debug)]
pub struct OE<B: OF, N: NR<B>, const K: usize>(pub [B; K], pub PhantomData<N>);
impl<B: OF, N: NR<B>, const K: usize> OF for OE<B, N, K> {
    fn zero() -> Self {
        OE([B::zero(); K], PhantomData)
    }
    fn one() -> Self {
        let mut c = [B::zero(); K];
        c[0] = B::one();
        OE(c, PhantomData)
    }
    fn add(self, o: Self) -> Self {
        OE(core::array::from_fn(|i| self.0[i].add(o.0[i])), PhantomData)
    }
    fn sub(self, o: Self) -> Self {
        OE(core::array::from_fn(|i| self.0[i].sub(o.0[i])), PhantomData)
    }
    fn mul(self, o: Self) -> Self {
        // product of degree <= 2K-2, then X^K = nr
        let mut lo = [B::zero(); K];
        let mut hi = [B::zero(); K];
        let mut i = 0;
        while i < K {
            let mut j = 0;
            while j < K {
                let t = self.0[i].mul(o.0[j]);
                if i + j < K {
                    lo[i + j] = lo[i + j].add(t);
                } else {
                    hi[i + j - K] = hi[i + j - K].add(t);
                }
                j += 1;
            }
            i += 1;
        }
        OE(core::array::from_fn(|d| lo[d].add(hi[d].mul(N::nr()))), PhantomData)
    }
    fn any() -> Self {
        OE(core::array::from_fn(|_| B::any()), PhantomData)
    }
    fn any_masked(mask: &mut u32) -> Self {
        let mut c = [B::zero(); K];
        let mut i = 0;
        while i < K {
            c[i] = B::any_masked(mask);
            i += 1;
        }
        OE(c, PhantomData)
    }
}
macro_rules! nr {
    ($name:ident, $b:ty, $v:expr) => {
        #[derive(Copy, Clone, PartialEq, Debug)]
        pub struct $name;
        impl NR<$b> for $name {
            fn nr() -> $b {
                $v
            }
        }
    };
}
pub type P7 = OP<7>;
pub type P13 = OP<13>;
pub type P5 = OP<5>;
nr!(N5q, P5, OP(2));
pub type O5_2 = OE<P5, N5q, 2>;
nr!(N5u, O5_2, OE([OP(0), OP(1)], PhantomData));
pub type O5_4 = OE<O5_2, N5u, 2>;
nr!(N7m1, P7, OP(6));
nr!(N7c, P7, OP(2));
nr!(N13q, P13, OP(2));
pub type O7_2 = OE<P7, N7m1, 2>;
nr!(N7xi, O7_2, OE([OP(XI7.0), OP(XI7.1)], PhantomData));
pub type O7_6 = OE<O7_2, N7xi, 3>;
nr!(N7v, O7_6, OE([O7_2::zero(), O7_2::one(), O7_2::zero()], PhantomData));
pub type O7_12 = OE<O7_6, N7v, 2>;
pub type O7_3 = OE<P7, N7c, 3>;
nr!(N7c3, P7, OP(3));
pub type O7_3b = OE<P7, N7c3, 3>;
nr!(N7u3, O7_3b, OE([OP(0), OP(1), OP(0)], PhantomData));
pub type O7_6b = OE<O7_3b, N7u3, 2>;
pub type O13_2 = OE<P13, N13q, 2>;
nr!(N13u, O13_2, OE([OP(0), OP(1)], PhantomData));
pub type O13_4 = OE<O13_2, N13u, 2>;
pub type O13_3 = OE<P13, N13q, 3>;
nr!(N13u3, O13_3, OE([OP(0), OP(1), OP(0)], PhantomData));
pub type O13_6 = OE<O13_3, N13u3, 2>;

// ---- conversions oracle <-> ark element (through the public constructors / fields) ----------------------------
pub trait Conv<O: OF>: Field {
    fn from_o(o: &O) -> Self;
    fn to_o(&self) -> O;
}
impl Conv<P7> for PF7 {
    fn from_o(o: &P7) -> Self {
        PF7::enc(o.0)
    }
    fn to_o(&self) -> P7 {
        OP(self.val())
    }
}
impl Conv<P5> for PF5 {
    fn from_o(o: &P5) -> Self {
        PF5::enc(o.0)
    }
    fn to_o(&self) -> P5 {
        OP(self.val())
    }
}
impl Conv<P13> for PF13 {
    fn from_o(o: &P13) -> Self {
        PF13::enc(o.0)
    }
    fn to_o(&self) -> P13 {
        OP(self.val())
    }
}
impl Conv<P13> for crate::fields::DF13 {
    fn from_o(o: &P13) -> Self {
        <crate::fields::DF13 as Tiny>::enc(o.0)
    }
    fn to_o(&self) -> P13 {
        OP(self.val())
    }
}
macro_rules! conv_quad {
    ($ark:ty, $o:ty, $b:ty) => {
        impl Conv<$o> for $ark {
            fn from_o(o: &$o) -> Self {
                <$ark>::new(<$b>::from_o(&o.0[0]), <$b>::from_o(&o.0[1]))
            }
            fn to_o(&self) -> $o {
                OE([self.c0.to_o(), self.c1.to_o()], PhantomData)
            }
        }
    };
}
macro_rules! conv_cubic {
    ($ark:ty, $o:ty, $b:ty) => {
        impl Conv<$o> for $ark {
            fn from_o(o: &$o) -> Self {
                <$ark>::new(<$b>::from_o(&o.0[0]), <$b>::from_o(&o.0[1]), <$b>::from_o(&o.0[2]))
            }
            fn to_o(&self) -> $o {
                OE([self.c0.to_o(), self.c1.to_o(), self.c2.to_o()], PhantomData)
            }
        }
    };
}
conv_quad!(F7_2, O7_2, PF7);
conv_cubic!(F7_6, O7_6, F7_2);
conv_quad!(F7_12, O7_12, F7_6);
conv_cubic!(F7_3, O7_3, PF7);
conv_quad!(F13_2, O13_2, PF13);
conv_quad!(F13_4, O13_4, F13_2);
conv_cubic!(F13_3, O13_3, PF13);
conv_quad!(F13_6, O13_6, F13_3);
conv_quad!(M13_2, O13_2, crate::fields::DF13);
conv_quad!(F5_2, O5_2, PF5);
conv_quad!(F5_4, O5_4, F5_2);
conv_cubic!(F7_3b, O7_3b, PF7);
conv_quad!(F7_6b, O7_6b, F7_3b);

// ---- generic checks -------------------------------------------------------------------------------------------------
fn mul_square<A: Conv<O>, O: OF>() {
    let (x, y) = (O::any(), O::any());
    let (a, b) = (A::from_o(&x), A::from_o(&y));
    let prod = a * b;
    let mut p2 = a;
    p2 *= &b;
    let sq = a.square();
    let mut s2 = a;
    s2.square_in_place();
    let sum = a + b;
    let dif = a - b;
    crate::cover!(!x.is_zero() && !y.is_zero() && x.mul(y) == O::one());
    let ok = prod.to_o() == x.mul(y) && p2 == prod && sq.to_o() == x.mul(x) && s2 == sq && sum.to_o() == x.add(y) && dif.to_o() == x.sub(y)
        && a.is_zero() == x.is_zero() && a.is_one() == (x == O::one()) && (-a).to_o() == O::zero().sub(x) && a.double().to_o() == x.add(x);
    assert!(ok);
}
/// mul with a window on the operands: coordinates selected by the masks are symbolic (ALL values), the others zero
fn mul_window<A: Conv<O>, O: OF>(mut xmask: u32, mut ymask: u32) {
    let (x, y) = (O::any_masked(&mut xmask), O::any_masked(&mut ymask));
    let (a, b) = (A::from_o(&x), A::from_o(&y));
    let prod = a * b;
    let mut p2 = b;
    p2 *= &a;
    crate::cover!(!x.is_zero() && !y.is_zero());
    let ok = prod.to_o() == x.mul(y) && p2 == prod;
    assert!(ok);
}
fn square_window<A: Conv<O>, O: OF>(mut xmask: u32) {
    let x = O::any_masked(&mut xmask);
    let a = A::from_o(&x);
    let sq = a.square();
    let mut s2 = a;
    s2.square_in_place();
    crate::cover!(!x.is_zero() && x != O::one());
    let ok = sq.to_o() == x.mul(x) && s2 == sq && (-a).to_o() == O::zero().sub(x) && a.double().to_o() == x.add(x) && a.is_zero() == x.is_zero();
    assert!(ok);
}
fn inverse<A: Conv<O>, O: OF>() {
    let x = O::any();
    let a = A::from_o(&x);
    let inv = a.inverse();
    crate::cover!(!x.is_zero() && x != O::one());
    let ok = match inv {
        None => x.is_zero(),
        Some(i) => !x.is_zero() && i.to_o().mul(x) == O::one(),
    };
    assert!(ok);
}
/// frobenius_map(1) is x -> x^p (oracle exponentiation) and frobenius_map(k) is its k-fold iterate, k = 0..=D+1
fn frobenius<A: Conv<O>, O: OF, const D: usize>(p: u32) {
    let x = O::any();
    let a = A::from_o(&x);
    let f1 = a.frobenius_map(1);
    let mut ok = f1.to_o() == x.pow(p);
    let mut it = a;
    let mut k = 0;
    while k <= D + 1 {
        ok &= a.frobenius_map(k) == it;
        it = it.frobenius_map(1);
        k += 1;
    }
    // order: the D-fold iterate is the identity map
    ok &= a.frobenius_map(D) == a;
    crate::cover!(f1 != a);
    assert!(ok);
}

crate::harnesses! { REG;
    /// quick required | Fp2 = F_7[u]/(u^2+1) (non-residue -1: specialised squaring): mul, square, add, sub, neg, double, is_zero/is_one for ALL pairs vs schoolbook oracle
    #[unwind(10)]
    fn c02_fp2_f7_mul() { mul_square::<F7_2, O7_2>() }
    /// quick required | Fp2 = F_13[u]/(u^2-2) (general non-residue): mul, square, linear ops for ALL pairs
    #[unwind(10)]
    fn c02_fp2_f13_mul() { mul_square::<F13_2, O13_2>() }
    /// thorough required timeout=3000 | Fp2 over the REAL Montgomery base field F_13 (derive): mul, square for ALL pairs
    #[unwind(10)]
    fn c02_fp2_mont13_mul() { mul_square::<M13_2, O13_2>() }
    /// quick required | Fp3 = F_7[u]/(u^3-2): mul (Karatsuba), square (Chung-Hasan), linear ops for ALL pairs
    #[unwind(10)]
    fn c02_fp3_f7_mul() { mul_square::<F7_3, O7_3>() }
    /// thorough required timeout=3000 | Fp3 = F_13[u]/(u^3-2): mul, square for ALL pairs
    #[unwind(10)]
    fn c02_fp3_f13_mul() { mul_square::<F13_3, O13_3>() }
    /// quick required | Fp4 = Fp2[v]/(v^2-u) over F_5: mul, square, linear ops for ALL pairs (5^8 pairs of elements)
    #[unwind(10)]
    fn c02_fp4_f5_mul() { mul_square::<F5_4, O5_4>() }
    /// thorough required timeout=3000 | Fp4 over F_13: mul with x ranging over ALL elements and y over ALL elements with c1 = 0 / c0 = 0 (two windows); square for ALL x
    #[unwind(10)]
    fn c02_fp4_f13_mul() { mul_window::<F13_4, O13_4>(0xf, 0x3); mul_window::<F13_4, O13_4>(0xf, 0xc); square_window::<F13_4, O13_4>(0xf) }
    /// quick required | Fp6_3over2 over F_7: square (Chung-Hasan), neg, double for ALL elements (7^6)
    #[unwind(10)]
    fn c02_fp6_3over2_square() { square_window::<F7_6, O7_6>(0x3f) }
    /// quick required | Fp6_3over2 over F_7: mul (Karatsuba) with x over ALL elements and y over all elements of the form (y0, 0, 0) — window: 2 of 6 coordinates of y symbolic
    #[unwind(10)]
    fn c02_fp6_3over2_mul_w0() { mul_window::<F7_6, O7_6>(0x3f, 0x03) }
    /// thorough required timeout=3000 | Fp6_3over2 over F_7: mul with y = (0, y1, 0) and y = (0, 0, y2), x over ALL elements
    #[unwind(10)]
    fn c02_fp6_3over2_mul_w12() { mul_window::<F7_6, O7_6>(0x3f, 0x0c); mul_window::<F7_6, O7_6>(0x3f, 0x30) }
    /// quick required | Fp6_2over3 over F_7: square for ALL elements (7^6); mul with x over ALL elements and y = (y0.c0, y0.c1, 0 | 0) window
    #[unwind(10)]
    fn c02_fp6_2over3_square_mul() { square_window::<F7_6b, O7_6b>(0x3f); mul_window::<F7_6b, O7_6b>(0x3f, 0x03) }
    /// thorough required timeout=3000 | Fp6_2over3 over F_7: mul with the remaining two-coordinate windows of y
    #[unwind(10)]
    fn c02_fp6_2over3_mul_more() { mul_window::<F7_6b, O7_6b>(0x3f, 0x0c); mul_window::<F7_6b, O7_6b>(0x3f, 0x30) }
    /// thorough attempt timeout=3000 mem=30 | Fp12 over F_7: mul and square on windows (x: the six coordinates of c0 symbolic, y: two coordinates symbolic)
    #[unwind(10)]
    fn c02_fp12_mul() { mul_window::<F7_12, O7_12>(0x03f, 0x003); mul_window::<F7_12, O7_12>(0xfc0, 0x0c0); square_window::<F7_12, O7_12>(0x3f) }

    /// quick required | inverse in Fp2/F_7, Fp2/F_13, Fp3/F_7: ALL x: None iff x = 0, else x * inv = 1
    #[unwind(10)]
    fn c02_inverse_small() { inverse::<F7_2, O7_2>(); inverse::<F13_2, O13_2>(); inverse::<F7_3, O7_3>() }
    /// quick required | inverse in Fp4/F_5 and Fp6_3over2/F_7: ALL x
    #[unwind(10)]
    fn c02_inverse_fp4_fp6() { inverse::<F5_4, O5_4>(); inverse::<F7_6, O7_6>() }
    /// thorough required timeout=3000 | inverse in Fp6_2over3/F_7, Fp4/F_13 and Fp3/F_13: ALL x
    #[unwind(10)]
    fn c02_inverse_more() { inverse::<F7_6b, O7_6b>(); inverse::<F13_4, O13_4>(); inverse::<F13_3, O13_3>() }
    /// thorough attempt timeout=3000 mem=30 | inverse in Fp12/F_7: ALL x
    #[unwind(10)]
    fn c02_inverse_fp12() { inverse::<F7_12, O7_12>() }

    /// quick required | Frobenius in Fp2/F_7 and Fp2/F_13: frobenius_map(1) = x^p (oracle power), frobenius_map(k) = k-fold iterate for k = 0..=3, ALL x
    #[unwind(10)]
    fn c02_frobenius_fp2() { frobenius::<F7_2, O7_2, 2>(7); frobenius::<F13_2, O13_2, 2>(13) }
    /// quick required | Frobenius in Fp3/F_7: x^p and iterates k = 0..=4, ALL x
    #[unwind(10)]
    fn c02_frobenius_fp3() { frobenius::<F7_3, O7_3, 3>(7) }
    /// quick required | Frobenius in Fp4/F_5: x^p and iterates k = 0..=5, ALL x
    #[unwind(10)]
    fn c02_frobenius_fp4() { frobenius::<F5_4, O5_4, 4>(5) }
    /// thorough required timeout=3000 | Frobenius in Fp6_3over2/F_7: x^p and iterates k = 0..=7, ALL x
    #[unwind(10)]
    fn c02_frobenius_fp6_3over2() { frobenius::<F7_6, O7_6, 6>(7) }
    /// thorough required timeout=3000 | Frobenius in Fp6_2over3/F_7: x^p and iterates k = 0..=7, ALL x
    #[unwind(10)]
    fn c02_frobenius_fp6_2over3() { frobenius::<F7_6b, O7_6b, 6>(7) }
    /// thorough required timeout=3000 mem=30 | Frobenius in Fp12/F_7: x^p and iterates k = 0..=13, ALL x
    #[unwind(16)]
    fn c02_frobenius_fp12() { frobenius::<F7_12, O7_12, 12>(7) }

    /// quick required | norm and multiplication by base-field elements: Fp2/F_7, Fp2/F_13 (norm = c0^2 - beta c1^2), Fp3/F_7 (norm = x * x^p * x^(p^2) lies in F_p), mul_assign_by_fp / mul_by_base_prime_field, ALL x and scalars
    #[unwind(10)]
    fn c02_norm_basemul() {
        let (x, y, z) = (O7_2::any(), O13_2::any(), O7_3::any());
        let (s7, s13) = (P7::any(), P13::any());
        let (a, b, c) = (F7_2::from_o(&x), F13_2::from_o(&y), F7_3::from_o(&z));
        let n7 = x.0[0].mul(x.0[0]).sub(OP(6).mul(x.0[1]).mul(x.0[1]));
        let n13 = y.0[0].mul(y.0[0]).sub(OP(2).mul(y.0[1]).mul(y.0[1]));
        let n3 = z.mul(z.pow(7)).mul(z.pow(49));
        let mut a2 = a;
        a2.mul_assign_by_fp(&PF7::from_o(&s7));
        let mut c2 = c;
        c2.mul_assign_by_fp(&PF7::from_o(&s7));
        let mut b2 = b;
        b2.mul_assign_by_basefield(&PF13::from_o(&s13));
        let b3 = b.mul_by_base_prime_field(&PF13::from_o(&s13));
        let es7 = OE([s7, OP(0)], PhantomData);
        let es13 = OE([s13, OP(0)], PhantomData);
        let es73 = OE([s7, OP(0), OP(0)], PhantomData);
        crate::cover!(!x.is_zero() && s7.0 > 1);
        let ok = a.norm().to_o() == n7 && b.norm().to_o() == n13 && n3.0[1].0 == 0 && n3.0[2].0 == 0 && c.norm().to_o() == n3.0[0]
            && a2.to_o() == x.mul(es7) && b2.to_o() == y.mul(es13) && b3 == b2 && c2.to_o() == z.mul(es73);
        assert!(ok);
    }
    /// quick required | sparse multiplications of Fp6_3over2/F_7: mul_by_1(c1), mul_by_fp2(c0), mul_by_fp(s) equal full multiplication by the embedded sparse element: x over ALL elements, the sparse operand over ALL Fp2 / Fp values
    #[unwind(10)]
    fn c02_sparse_fp6_3over2() {
        let x = O7_6::any();
        let c = O7_2::any();
        let s = P7::any();
        let which: u8 = any();
        assume(which < 3);
        let a = F7_6::from_o(&x);
        let z2 = O7_2::zero();
        let mut m = a;
        let want = match which {
            0 => { m.mul_by_1(&F7_2::from_o(&c)); x.mul(OE([z2, c, z2], PhantomData)) },
            1 => { m.mul_by_fp2(&F7_2::from_o(&c)); x.mul(OE([c, z2, z2], PhantomData)) },
            _ => { m.mul_by_fp(&PF7::from_o(&s)); x.mul(OE([OE([s, OP(0)], PhantomData), z2, z2], PhantomData)) },
        };
        crate::cover!(!x.is_zero() && !c.is_zero() && which == 0);
        let ok = m.to_o() == want;
        assert!(ok);
    }
    /// thorough required timeout=3000 | Fp6_3over2/F_7 mul_by_01(c0, c1): x over ALL elements, c0 over ALL of Fp2, c1 with one symbolic coordinate (two windows)
    #[unwind(10)]
    fn c02_sparse_fp6_01() {
        let x = O7_6::any();
        let c0 = O7_2::any();
        let mut mask: u32 = if any::<bool>() { 1 } else { 2 };
        let c1 = O7_2::any_masked(&mut mask);
        let a = F7_6::from_o(&x);
        let mut m = a;
        m.mul_by_01(&F7_2::from_o(&c0), &F7_2::from_o(&c1));
        crate::cover!(!x.is_zero() && !c0.is_zero() && !c1.is_zero());
        let ok = m.to_o() == x.mul(OE([c0, c1, O7_2::zero()], PhantomData));
        assert!(ok);
    }
    /// quick required | sparse multiplications of Fp6_2over3/F_13 (mul_by_034, mul_by_014) and Fp4 (mul_by_fp, mul_by_fp2) equal full multiplication by the embedded element, ALL operands
    #[unwind(10)]
    fn c02_sparse_fp6_2over3_fp4() {
        let x = O13_6::any();
        let (c0, c3, c4) = (P13::any(), P13::any(), P13::any());
        let a = F13_6::from_o(&x);
        let z = OP(0);
        let mut m034 = a;
        m034.mul_by_034(&PF13::from_o(&c0), &PF13::from_o(&c3), &PF13::from_o(&c4));
        let mut m014 = a;
        m014.mul_by_014(&PF13::from_o(&c0), &PF13::from_o(&c3), &PF13::from_o(&c4));
        let e034: O13_6 = OE([OE([c0, z, z], PhantomData), OE([c3, c4, z], PhantomData)], PhantomData);
        let e014: O13_6 = OE([OE([c0, c3, z], PhantomData), OE([z, c4, z], PhantomData)], PhantomData);
        let y = O13_4::any();
        let b = F13_4::from_o(&y);
        let f2 = O13_2::any();
        let mut bf = b;
        bf.mul_by_fp(&PF13::from_o(&c0));
        let mut bf2 = b;
        bf2.mul_by_fp2(&F13_2::from_o(&f2));
        crate::cover!(!x.is_zero() && c0.0 != 0 && c3.0 != 0 && c4.0 != 0);
        let ok = m034.to_o() == x.mul(e034) && m014.to_o() == x.mul(e014)
            && bf.to_o() == y.mul(OE([OE([c0, z], PhantomData), O13_2::zero()], PhantomData)) && bf2.to_o() == y.mul(OE([f2, O13_2::zero()], PhantomData));
        assert!(ok);
    }
    /// thorough required timeout=3000 mem=30 | sparse multiplications of Fp12/F_7 (mul_by_034, mul_by_014, mul_by_fp) equal full multiplication by the embedded sparse element, ALL operands
    #[unwind(10)]
    fn c02_sparse_fp12() {
        let x = O7_12::any();
        let (c0, c3, c4) = (O7_2::any(), O7_2::any(), O7_2::any());
        let a = F7_12::from_o(&x);
        let z = O7_2::zero();
        let mut m034 = a;
        m034.mul_by_034(&F7_2::from_o(&c0), &F7_2::from_o(&c3), &F7_2::from_o(&c4));
        let mut m014 = a;
        m014.mul_by_014(&F7_2::from_o(&c0), &F7_2::from_o(&c3), &F7_2::from_o(&c4));
        let e034: O7_12 = OE([OE([c0, z, z], PhantomData), OE([c3, c4, z], PhantomData)], PhantomData);
        let e014: O7_12 = OE([OE([c0, c3, z], PhantomData), OE([z, c4, z], PhantomData)], PhantomData);
        crate::cover!(!x.is_zero() && !c0.is_zero() && !c4.is_zero());
        let ok = m034.to_o() == x.mul(e034) && m014.to_o() == x.mul(e014);
        assert!(ok);
    }
    /// thorough required timeout=3000 unwindset=BitIteratorBE:66,>::pow:8,exp_loop:8,find_naf:8 | Fp3/F_7 (default CyclotomicMultSubgroup impl, INVERSE_IS_FAST = false): cyclotomic_exp(e) = pow(e), cyclotomic_square = square, cyclotomic_inverse = inverse for ALL non-zero x and ALL exponents e < 2^5
    #[unwind(20)]
    fn c02_cyclotomic_fp3() {
        let x = O7_3::any();
        assume(!x.is_zero());
        let a = F7_3::from_o(&x);
        let e: u64 = any();
        let e = e & 31;
        crate::cover!(e == 7 && x != O7_3::one());
        let ok = a.cyclotomic_exp([e]).to_o() == x.pow(e as u32) && a.cyclotomic_square() == a.square() && a.cyclotomic_inverse() == a.inverse();
        assert!(ok);
    }
    /// thorough required timeout=3000 unwindset=BitIteratorBE:66,>::pow:8,exp_loop:8,find_naf:8 | cyclotomic operations on Fp2/F_7 restricted to the cyclotomic subgroup (x * conj(x) = 1): cyclotomic_square = square, cyclotomic_inverse = inverse (conjugation), cyclotomic_exp(e) (NAF path) = pow(e) for ALL e < 2^5
    #[unwind(20)]
    fn c02_cyclotomic_fp2_fp4() {
        let x = O7_2::any();
        // unit circle of Fp2: x * conj(x) = 1
        let conj: O7_2 = OE([x.0[0], OP(0).sub(x.0[1])], PhantomData);
        assume(x.mul(conj) == O7_2::one());
        let a = F7_2::from_o(&x);
        let e: u64 = any();
        assume(e < 32);
        crate::cover!(x != O7_2::one() && e > 2);
        let ok = a.cyclotomic_square() == a.square() && a.cyclotomic_inverse() == a.inverse() && a.cyclotomic_exp([e]) == a.pow([e]);
        assert!(ok);
    }
}
