//! C17 — multilinear extensions and sparse multivariate polynomials evaluate as defined.
//! Field: table-backed F_13.  Oracle: the definition — sum over the Boolean hypercube of table values weighted by the equality
//! polynomial (index bit i <-> variable x_i), on integers mod 13.
use crate::fields::Tiny;
use crate::plain::*;
use crate::sym::{any, assume};
use ark_ff::{Field, Zero};
use ark_poly::{
    multivariate::{SparsePolynomial as MvPoly, SparseTerm, Term},
    DenseMVPolynomial, DenseMultilinearExtension, MultilinearExtension, Polynomial, SparseMultilinearExtension,
};
use ark_std::vec::Vec;

type F = PF13;
const P: u32 = 13;
fn anyv() -> u32 {
    let v: u32 = any();
    let v = v & 0xf;
    assume(v < P);
    v
}
/// MLE evaluation from the definition; `n` variables, table of 2^n values
fn mle_eval(table: &[u32], point: &[u32], n: usize) -> u32 {
    let mut acc = 0u32;
    let mut b = 0usize;
    while b < (1 << n) {
        let mut w = 1u32;
        let mut i = 0;
        while i < n {
            let r = point[i];
            w = (w * if (b >> i) & 1 == 1 { r } else { (1 + P - r) % P }) % P;
            i += 1;
        }
        acc = (acc + w * table[b]) % P;
        b += 1;
    }
    acc
}
fn dense<const T: usize>(nv: usize) -> ([u32; T], DenseMultilinearExtension<F>) {
    let t: [u32; T] = core::array::from_fn(|_| anyv());
    let v: Vec<F> = t.iter().map(|&x| F::enc(x)).collect();
    (t, DenseMultilinearExtension::from_evaluations_vec(nv, v))
}
fn point<const N: usize>() -> ([u32; N], Vec<F>) {
    let p: [u32; N] = core::array::from_fn(|_| anyv());
    (p, p.iter().map(|&x| F::enc(x)).collect())
}

fn dense_eval_fix<const N: usize, const T: usize>() {
    let (t, m) = dense::<T>(N);
    let (p, pv) = point::<N>();
    let want = mle_eval(&t, &p, N);
    let e = m.evaluate(&pv);
    // fixing a prefix of every length and evaluating the rest gives the same value; the fixed table is the MLE of the restricted function
    let mut ok = e.val() == want && m.num_vars() == N;
    let mut d = 0;
    while d <= N {
        let f = m.fix_variables(&pv[..d]);
        ok = ok && f.num_vars() == N - d && f.evaluate(&pv[d..].to_vec()).val() == want;
        core::mem::forget(f);
        d += 1;
    }
    crate::cover!(N == 0 || (p[0] > 1 && t[T - 1] != 0));
    core::mem::forget((m, pv));
    assert!(ok);
}
fn dense_arith1<const N: usize, const T: usize, const OP: u8>() {
    let ((ta, a), (tb, b)) = (dense::<T>(N), dense::<T>(N));
    let (p, pv) = point::<N>();
    let s = anyv();
    assume(s != 0);
    let (ea, eb) = (mle_eval(&ta, &p, N), mle_eval(&tb, &p, N));
    let (r, want) = match OP {
        0 => (&a + &b, (ea + eb) % P),
        1 => (&a - &b, (ea + P - eb) % P),
        2 => (-a.clone(), (P - ea) % P),
        3 => (&a * &F::enc(s), (s * ea) % P),
        _ => { let mut t = a.clone(); t += (F::enc(s), &b); (t, (ea + s * eb) % P) },
    };
    crate::cover!(ea != 0 && eb != 0 && s > 1);
    let ok = r.evaluate(&pv).val() == want && r.num_vars() == N;
    core::mem::forget((a, b, r, pv));
    assert!(ok);
}
fn dense_arith<const N: usize, const T: usize>() {
    let ((ta, a), (tb, b)) = (dense::<T>(N), dense::<T>(N));
    let (p, pv) = point::<N>();
    let s = anyv();
    // scaling by zero returns the 0-variable "constant zero" (recorded finding, see c17_scale_by_zero_finding)
    assume(s != 0);
    let (ea, eb) = (mle_eval(&ta, &p, N), mle_eval(&tb, &p, N));
    let sum = &a + &b;
    let dif = &a - &b;
    let neg = -a.clone();
    let sc = &a * &F::enc(s);
    let mut acc = a.clone();
    acc += (F::enc(s), &b);
    crate::cover!(ea != 0 && eb != 0 && s > 1);
    let ok = sum.evaluate(&pv).val() == (ea + eb) % P && dif.evaluate(&pv).val() == (ea + P - eb) % P && neg.evaluate(&pv).val() == (P - ea) % P
        && sc.evaluate(&pv).val() == (s * ea) % P && acc.evaluate(&pv).val() == (ea + s * eb) % P;
    core::mem::forget((a, b, sum, dif, neg, sc, acc, pv));
    assert!(ok);
}
/// relabel(a, b, k): swapping the variable windows [a, a+k) and [b, b+k) — evaluation at a point equals the original at the swapped point
fn dense_relabel<const N: usize, const T: usize>() {
    let (t, m) = dense::<T>(N);
    let (p, pv) = point::<N>();
    let (a, b, k): (usize, usize, usize) = (any(), any(), any());
    assume(a <= N && b <= N && k <= N);
    let (lo, hi) = if a <= b { (a, b) } else { (b, a) };
    assume(hi + k <= N && (lo + k <= hi || lo == hi));
    let r = m.relabel(a, b, k);
    let mut q = p;
    if lo != hi {
        let mut i = 0;
        while i < k {
            q.swap(lo + i, hi + i);
            i += 1;
        }
    }
    crate::cover!(k == 1 && lo != hi);
    let ok = r.evaluate(&pv).val() == mle_eval(&t, &q, N) && r.num_vars() == N;
    core::mem::forget((m, r, pv));
    assert!(ok);
}
fn dense_concat() {
    // concat of a 1-variable and a 0-variable... tables [a0,a1] and [b0,b1] -> 2 variables [a0,a1,b0,b1]; unequal: [a0,a1] + [c] -> padded
    let ((ta, a), (tb, b)) = (dense::<2>(1), dense::<2>(1));
    let (tc, c) = dense::<1>(0);
    let (p, pv) = point::<2>();
    let ab = DenseMultilinearExtension::concat([&a, &b]);
    let ac = DenseMultilinearExtension::concat([&a, &c]);
    crate::cover!(ta[1] != 0 && tb[0] != 0);
    let ok = ab.num_vars() == 2 && ab.evaluate(&pv).val() == mle_eval(&[ta[0], ta[1], tb[0], tb[1]], &p, 2)
        && ac.num_vars() == 2 && ac.evaluate(&pv).val() == mle_eval(&[ta[0], ta[1], tc[0], 0], &p, 2);
    core::mem::forget((a, b, c, ab, ac, pv));
    assert!(ok);
}
/// sparse MLE with a concrete index set and symbolic values agrees with the dense MLE of the same table at every point
fn sparse_vs_dense(idx: [usize; 2]) {
    let vals: [u32; 2] = [anyv(), anyv()];
    let (p, pv) = point::<2>();
    let ev: Vec<(usize, F)> = [(idx[0], F::enc(vals[0])), (idx[1], F::enc(vals[1]))].to_vec();
    let s = SparseMultilinearExtension::from_evaluations(2, &ev);
    let mut table = [0u32; 4];
    table[idx[0]] = vals[0];
    table[idx[1]] = vals[1]; // a repeated index keeps the later value
    let want = mle_eval(&table, &p, 2);
    let e = s.evaluate(&pv);
    let d = s.to_dense_multilinear_extension();
    crate::cover!(vals[0] != 0 && vals[1] != 0 && p[0] > 1);
    let ok = e.val() == want && d.evaluate(&pv).val() == want && s.num_vars() == 2;
    core::mem::forget((s, d, ev, pv));
    assert!(ok);
}
/// sparse multivariate polynomial from a term list with concrete exponent patterns and symbolic coefficients
fn mv_poly() {
    let c: [u32; 3] = [anyv(), anyv(), anyv()];
    let (p, pv) = point::<2>();
    // terms: c0 * x0^2 x1, c1 * x1 (variables given unsorted / repeated: x1 * x0 * x0), c2 * x1 again (duplicate term)
    let terms: Vec<(F, SparseTerm)> = [
        (F::enc(c[0]), SparseTerm::new([(1, 1), (0, 1), (0, 1)].to_vec())),
        (F::enc(c[1]), SparseTerm::new([(1, 1)].to_vec())),
        (F::enc(c[2]), SparseTerm::new([(1, 1)].to_vec())),
    ]
    .to_vec();
    let f = MvPoly::from_coefficients_vec(2, terms);
    let x0 = p[0];
    let x1 = p[1];
    let want = ((c[0] * ((x0 * x0) % P) % P) * x1 + ((c[1] + c[2]) % P) * x1) % P;
    let g = -f.clone();
    let h = &f + &f;
    let z = &f - &f;
    crate::cover!(c[0] != 0 && (c[1] + c[2]) % P == 0);
    let ok = f.evaluate(&pv).val() == want && g.evaluate(&pv).val() == (P - want) % P && h.evaluate(&pv).val() == (2 * want) % P
        && z.is_zero() && z.evaluate(&pv).val() == 0 && (c[0] != 0 || (c[1] + c[2]) % P != 0 || f.is_zero());
    core::mem::forget((f, g, h, z, pv));
    assert!(ok);
}

crate::harnesses! { REG;
    /// quick required | dense MLE, 2 variables: evaluate at ALL points (Boolean and non-Boolean) for ALL tables == sum over the hypercube of table[b]*eq(b, r); fix_variables for every prefix length then evaluate == evaluate(full point)
    #[unwind(10)]
    fn c17_dense_eval_fix_2() { dense_eval_fix::<2, 4>() }
    /// quick required | dense MLE, 1 variable: evaluate / fix_variables, ALL tables and points
    #[unwind(10)]
    fn c17_dense_eval_fix_1() { dense_eval_fix::<1, 2>() }
    /// thorough attempt timeout=3000 mem=30 | dense MLE, 0 variables (constant): evaluate / fix_variables
    #[unwind(10)]
    fn c17_dense_eval_fix_0() { dense_eval_fix::<0, 1>() }
    /// thorough required timeout=3000 | dense MLE, 3 variables: evaluate / fix_variables, ALL tables and points
    #[unwind(12)]
    fn c17_dense_eval_fix_3() { dense_eval_fix::<3, 8>() }
    /// thorough required timeout=2400 | dense MLE `&a + &b` on 2 variables: pointwise on ALL tables and points
    #[unwind(10)]
    fn c17_dense_add_2() { dense_arith1::<2, 4, 0>() }
    /// thorough required timeout=2400 | dense MLE `&a - &b` on 2 variables: pointwise on ALL tables and points
    #[unwind(10)]
    fn c17_dense_sub_2() { dense_arith1::<2, 4, 1>() }
    /// quick required | dense MLE `&a + &b` and `&a - &b` on 1 variable: pointwise on ALL tables and points
    #[unwind(10)]
    fn c17_dense_add_sub_1() { dense_arith1::<1, 2, 0>(); dense_arith1::<1, 2, 1>() }
    /// quick required | dense MLE scaled add `a += (s, &b)` on 1 variable: ALL tables, non-zero scalars, points
    #[unwind(10)]
    fn c17_dense_scaled_add_1() { dense_arith1::<1, 2, 4>() }
    /// quick required | dense MLE neg on 2 variables: ALL tables, points
    #[unwind(10)]
    fn c17_dense_neg_2() { dense_arith1::<2, 4, 2>() }
    /// thorough attempt timeout=3000 mem=30 | dense MLE scalar * (non-zero scalar) on 2 variables: ALL tables, scalars, points
    #[unwind(10)]
    fn c17_dense_scale_2() { dense_arith1::<2, 4, 3>() }
    /// thorough required timeout=2400 | dense MLE scaled add `a += (s, &b)` on 2 variables: ALL tables, scalars, points
    #[unwind(10)]
    fn c17_dense_scaled_add_2() { dense_arith1::<2, 4, 4>() }
    /// thorough attempt timeout=3000 mem=30 | dense MLE arithmetic, all five operators in one harness, 2 variables
    #[unwind(10)]
    fn c17_dense_arith_2() { dense_arith::<2, 4>() }
    /// quick required | the special 0-variable zero as LEFT and RIGHT operand: zero() + p, p + zero(), zero() - p (= -p), p - zero() for ALL 2-variable tables and points
    #[unwind(10)]
    fn c17_dense_zero_operand() {
        let (t, a) = dense::<4>(2);
        let (p, pv) = point::<2>();
        let z = DenseMultilinearExtension::<F>::zero();
        let e = mle_eval(&t, &p, 2);
        let which: u8 = any();
        assume(which < 4);
        let (r, want) = match which {
            0 => (&z + &a, e),
            1 => (&a + &z, e),
            2 => (&z - &a, (P - e) % P),
            _ => (&a - &z, e),
        };
        crate::cover!(which == 2 && e != 0);
        let ok = r.num_vars() == 2 && r.evaluate(&pv).val() == want;
        core::mem::forget((a, z, r, pv));
        assert!(ok);
    }
    /// quick finding | KNOWN FINDING region: dense MLE on 2 variables scaled by the scalar 0, then evaluated at a 2-variable point (the product collapses to the 0-variable constant zero and evaluate() asserts on the point length)
    #[unwind(10)]
    fn c17_scale_by_zero_finding() {
        let (_t, a) = dense::<4>(2);
        let (_p, pv) = point::<2>();
        let z = &a * &F::zero();
        crate::cover!(true);
        let ok = z.evaluate(&pv).val() == 0;
        core::mem::forget((a, z, pv));
        assert!(ok);
    }
    /// thorough required timeout=2400 | dense MLE relabel(a, b, k) on 2 variables for ALL admissible windows: equals evaluation at the point with the windows swapped
    #[unwind(10)]
    fn c17_dense_relabel_2() { dense_relabel::<2, 4>() }
    /// thorough required timeout=3000 | dense MLE relabel on 3 variables, ALL admissible (a, b, k)
    #[unwind(12)]
    fn c17_dense_relabel_3() { dense_relabel::<3, 8>() }
    /// quick required | DenseMultilinearExtension::concat of equal-size and unequal-size tables (zero padding): evaluation of the concatenated table
    #[unwind(10)]
    fn c17_dense_concat() { dense_concat() }
    /// thorough attempt timeout=3000 mem=30 | sparse MLE (2 variables; concrete index sets {0,3}, {1,2}, {2,2}; symbolic values) agrees with the dense MLE of the same table at ALL points
    #[unwind(12)]
    fn c17_sparse_vs_dense() { sparse_vs_dense([0, 3]); sparse_vs_dense([1, 2]); sparse_vs_dense([2, 2]) }
    /// thorough attempt timeout=3000 mem=30 | sparse multivariate polynomial from a term list with unsorted / repeated variables and a duplicate term, ALL coefficients (zero sums included): evaluate = sum of terms; neg, +, - pointwise
    #[unwind(12)]
    fn c17_mv_poly() { mv_poly() }
}
