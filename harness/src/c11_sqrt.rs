//! C11 — square roots and quadratic-residue tests are exact.
use crate::c02_towers::*;
use crate::c03_curves::*;
use crate::fields::*;
use crate::plain::*;
use crate::sym::{any, assume};
use crate::towers::*;
use crate::toy_curves::*;
use ark_ec::{short_weierstrass::{self as sw, SWCurveConfig}, twisted_edwards::{self as te, TECurveConfig}};
use ark_ff::{Field, LegendreSymbol, One, Zero};

/// is v a square mod p (brute force over all w)
fn is_sq(v: u32, p: u32) -> bool {
    let mut r = false;
    let mut w = 0;
    while w < p {
        r |= (w * w) % p == v;
        w += 1;
    }
    r
}
fn prime_sqrt<F: Tiny>() {
    let x = F::any();
    let v = x.val();
    let sq = is_sq(v, F::P);
    let r = x.sqrt();
    let leg = x.legendre();
    crate::cover!(sq && v > 1);
    crate::cover!(!sq);
    let mut ok = match r {
        Some(y) => sq && y.limb() < F::P as u64 && (y.val() * y.val()) % F::P == v,
        None => !sq,
    };
    ok &= match leg {
        LegendreSymbol::Zero => v == 0,
        LegendreSymbol::QuadraticResidue => v != 0 && sq,
        LegendreSymbol::QuadraticNonResidue => !sq,
    };
    ok &= v != 0 || matches!(r, Some(y) if y.val() == 0);
    assert!(ok);
}
/// extension fields: sqrt(x) is Some exactly when Euler's criterion x^((q-1)/2) in {0, 1} holds (oracle power), and root^2 = x
fn ext_sqrt<A: Conv<O>, O: OF>(half: u32) {
    let x = O::any();
    let a = A::from_o(&x);
    let e = x.pow(half);
    let sq = x.is_zero() || e == O::one();
    let r = a.sqrt();
    let leg = a.legendre();
    crate::cover!(sq && !x.is_zero() && x != O::one());
    crate::cover!(!sq);
    let mut ok = match r {
        Some(y) => sq && y.to_o().mul(y.to_o()) == x,
        None => !sq,
    };
    ok &= match leg {
        LegendreSymbol::Zero => x.is_zero(),
        LegendreSymbol::QuadraticResidue => !x.is_zero() && sq,
        LegendreSymbol::QuadraticNonResidue => !sq,
    };
    assert!(ok);
}
fn sw_ys_from_x<C: SWCurveConfig + Toy>()
where
    C::BaseField: Tiny,
{
    let p = C::T.p;
    let x: u32 = any();
    let x = x & 0x1f;
    assume(x < p);
    let greatest: bool = any();
    let r = sw::Affine::<C>::get_ys_from_x_unchecked(C::BaseField::enc(x));
    let pt = sw::Affine::<C>::get_point_from_x_unchecked(C::BaseField::enc(x), greatest);
    // brute force: ordinates of the points with this abscissa
    let (mut lo, mut hi, mut found) = (0u32, 0u32, false);
    let mut i = 1;
    while i < C::T.n {
        let (px, py) = C::T.pts[i];
        if px == x {
            let ny = (p - py) % p;
            lo = if py < ny { py } else { ny };
            hi = if py < ny { ny } else { py };
            found = true;
        }
        i += 1;
    }
    crate::cover!(found && lo == 0);
    crate::cover!(found && lo != hi);
    crate::cover!(!found);
    let mut ok = match r {
        Some((a, b)) => found && a.val() == lo && b.val() == hi,
        None => !found,
    };
    ok &= match pt {
        Some(q) => found && !q.infinity && q.x.val() == x && q.y.val() == if greatest { hi } else { lo },
        None => !found,
    };
    assert!(ok);
}
fn te_xs_from_y<C: TECurveConfig + Toy>()
where
    C::BaseField: Tiny,
{
    let p = C::T.p;
    let y: u32 = any();
    let y = y & 0x1f;
    assume(y < p);
    let greatest: bool = any();
    let r = te::Affine::<C>::get_xs_from_y_unchecked(C::BaseField::enc(y));
    let pt = te::Affine::<C>::get_point_from_y_unchecked(C::BaseField::enc(y), greatest);
    let (mut lo, mut hi, mut found) = (0u32, 0u32, false);
    let mut i = 0;
    while i < C::T.n {
        let (px, py) = C::T.pts[i];
        if py == y {
            let nx = (p - px) % p;
            lo = if px < nx { px } else { nx };
            hi = if px < nx { nx } else { px };
            found = true;
        }
        i += 1;
    }
    crate::cover!(found && lo == 0);
    crate::cover!(found && lo != hi);
    crate::cover!(!found);
    let mut ok = match r {
        Some((a, b)) => found && a.val() == lo && b.val() == hi,
        None => !found,
    };
    ok &= match pt {
        Some(q) => found && q.y.val() == y && q.x.val() == if greatest { hi } else { lo },
        None => !found,
    };
    assert!(ok);
}

crate::harnesses! { REG;
    /// quick required unwindset=BitIteratorBE:66,>::pow:8,SqrtPrecomputation:7 | F_7 (p = 3 mod 4: Case3Mod4 from MontConfig::SQRT_PRECOMP, real Montgomery derive): ALL x: sqrt is Some iff x is a square (brute-force oracle), root^2 = x, sqrt(0) = 0, legendre = Euler criterion
    #[unwind(28)]
    fn c11_prime_f7_mont() { prime_sqrt::<DF7>() }
    /// thorough attempt timeout=3000 mem=30 unwindset=BitIteratorBE:66,>::pow:8,SqrtPrecomputation:7 | F_13 (p = 1 mod 4, two-adicity 2: Tonelli-Shanks, real Montgomery derive): ALL x
    #[unwind(28)]
    fn c11_prime_f13_mont() { prime_sqrt::<DF13>() }
    /// quick required unwindset=BitIteratorBE:66,>::pow:8,SqrtPrecomputation:7 | F_17 (two-adicity 4, elements of maximal 2-power order included), generic SqrtPrecomputation::TonelliShanks over the table-backed field: ALL x
    #[unwind(28)]
    fn c11_prime_f17_plain() { prime_sqrt::<PF17>() }
    /// quick required unwindset=BitIteratorBE:66,>::pow:8,SqrtPrecomputation:7 | Fp2 = F_7[u]/(u^2+1): ALL 49 elements (c1 = 0 branch in both sub-cases included): sqrt Some iff x^((q-1)/2) in {0,1} (oracle power), root^2 = x, legendre
    #[unwind(28)]
    fn c11_fp2_f7() { ext_sqrt::<F7_2, O7_2>(24) }
    /// thorough required timeout=3000 unwindset=BitIteratorBE:66,>::pow:8,SqrtPrecomputation:7 | Fp2 = F_13[u]/(u^2-2): ALL 169 elements
    #[unwind(28)]
    fn c11_fp2_f13() { ext_sqrt::<F13_2, O13_2>(84) }
    /// thorough required timeout=3000 unwindset=BitIteratorBE:66,>::pow:10,SqrtPrecomputation:7 | Fp3 = F_7[u]/(u^3-2) with its configured TWO_ADICITY / TRACE_MINUS_ONE_DIV_TWO / QUADRATIC_NONRESIDUE_TO_T: ALL 343 elements
    #[unwind(28)]
    fn c11_fp3_f7() { ext_sqrt::<F7_3, O7_3>(171) }
    /// quick required unwindset=BitIteratorBE:66,>::pow:8,SqrtPrecomputation:7 | SW cofactor 4 over F_13: get_ys_from_x_unchecked / get_point_from_x_unchecked for ALL x: None iff no point has this abscissa; otherwise both ordinates in (smaller, larger) order (y = 0 included)
    #[unwind(28)]
    fn c11_sw_ys_from_x() { sw_ys_from_x::<SwCof4>() }
    /// quick required unwindset=BitIteratorBE:66,>::pow:8,SqrtPrecomputation:7 | TE complete over F_13: get_xs_from_y_unchecked / get_point_from_y_unchecked for ALL y: None iff no point; otherwise (smaller, larger)
    #[unwind(28)]
    fn c11_te_xs_from_y() { te_xs_from_y::<TeC>() }
    /// quick required unwindset=BitIteratorBE:66,>::pow:8,SqrtPrecomputation:7 | TE with d square over F_17 (vanishing denominator a - d y^2 possible): get_xs_from_y_unchecked for ALL y: no panic, None iff no affine point
    #[unwind(28)]
    fn c11_te_xs_from_y_incomplete() { te_xs_from_y::<TeInc>() }
}

