//! A "plain" `FpConfig` backend for tiny primes: the element is stored un-Montgomerised (limb = value) and the field
//! operations are table look-ups computed at compile time by const fns in THIS crate.  `FpConfig` is ark-ff's public
//! extension point; this backend is used where the property concerns the code ABOVE the prime field (curve models,
//! serialization of points, maps), so that the solver's effort goes into the layer under test.  Evidence files say so.
use crate::fields::Tiny;
use ark_ff::{BigInt, Fp, FpConfig, SqrtPrecomputation};
use core::marker::PhantomData;

/// tables are padded to 32 x 32 entries and indexed with `limb & 31`: no division and no bounds failure for any limb value
/// (elements are always < P <= 19, so the padding is never semantically reached)
pub const fn mul_table<const P: usize>() -> [[u8; 32]; 32] {
    let mut t = [[0u8; 32]; 32];
    let mut a = 0;
    while a < 32 {
        let mut b = 0;
        while b < 32 {
            t[a][b] = (((a % P) * (b % P)) % P) as u8;
            b += 1;
        }
        a += 1;
    }
    t
}
pub const fn inv_table<const P: usize>() -> [u8; 32] {
    let mut t = [0u8; 32];
    let mut a = 1;
    while a < P {
        let mut b = 1;
        while b < P {
            if (a * b) % P == 1 {
                t[a] = b as u8;
            }
            b += 1;
        }
        a += 1;
    }
    t
}
pub const fn pow_mod(mut b: u64, mut e: u64, p: u64) -> u64 {
    let mut r = 1;
    while e > 0 {
        if e & 1 == 1 {
            r = r * b % p;
        }
        b = b * b % p;
        e >>= 1;
    }
    r
}

macro_rules! plain_field {
    ($cfg:ident, $ty:ident, $p:expr, $gen:expr, $adicity:expr, $trace_m1_d2:expr, $bits:expr $(, { $($extra:tt)* })?) => {
        pub struct $cfg;
        impl $cfg {
            pub const MUL: [[u8; 32]; 32] = mul_table::<$p>();
            pub const INV: [u8; 32] = inv_table::<$p>();
            const fn el(v: u64) -> Fp<Self, 1> {
                Fp(BigInt([v]), PhantomData)
            }
        }
        impl FpConfig<1> for $cfg {
            const MODULUS: BigInt<1> = BigInt([$p as u64]);
            const GENERATOR: Fp<Self, 1> = Self::el($gen);
            const ZERO: Fp<Self, 1> = Self::el(0);
            const ONE: Fp<Self, 1> = Self::el(1);
            const TWO_ADICITY: u32 = $adicity;
            $($($extra)*)?
            // generator^((p-1)/2^s)
            const TWO_ADIC_ROOT_OF_UNITY: Fp<Self, 1> = Self::el(pow_mod($gen, ($p as u64 - 1) >> $adicity, $p as u64));
            const SQRT_PRECOMP: Option<SqrtPrecomputation<Fp<Self, 1>>> = Some(SqrtPrecomputation::TonelliShanks {
                two_adicity: $adicity,
                quadratic_nonresidue_to_trace: Self::el(pow_mod($gen, ($p as u64 - 1) >> $adicity, $p as u64)),
                trace_of_modulus_minus_one_div_two: &[$trace_m1_d2],
            });
            fn add_assign(a: &mut Fp<Self, 1>, b: &Fp<Self, 1>) {
                let s = ((a.0).0[0] as u8).wrapping_add((b.0).0[0] as u8);
                (a.0).0[0] = (if s >= $p as u8 { s - $p as u8 } else { s }) as u64;
            }
            fn sub_assign(a: &mut Fp<Self, 1>, b: &Fp<Self, 1>) {
                let (x, y) = ((a.0).0[0] as u8, (b.0).0[0] as u8);
                (a.0).0[0] = (if x >= y { x - y } else { x + $p as u8 - y }) as u64;
            }
            fn double_in_place(a: &mut Fp<Self, 1>) {
                let c = *a;
                Self::add_assign(a, &c);
            }
            fn neg_in_place(a: &mut Fp<Self, 1>) {
                let x = (a.0).0[0] as u8;
                (a.0).0[0] = (if x == 0 { 0 } else { $p as u8 - x }) as u64;
            }
            fn mul_assign(a: &mut Fp<Self, 1>, b: &Fp<Self, 1>) {
                (a.0).0[0] = Self::MUL[((a.0).0[0] & 31) as usize][((b.0).0[0] & 31) as usize] as u64;
            }
            fn sum_of_products<const T: usize>(a: &[Fp<Self, 1>; T], b: &[Fp<Self, 1>; T]) -> Fp<Self, 1> {
                let mut s = Self::ZERO;
                let mut i = 0;
                while i < T {
                    let mut t = a[i];
                    Self::mul_assign(&mut t, &b[i]);
                    Self::add_assign(&mut s, &t);
                    i += 1;
                }
                s
            }
            fn square_in_place(a: &mut Fp<Self, 1>) {
                let c = *a;
                Self::mul_assign(a, &c);
            }
            fn inverse(a: &Fp<Self, 1>) -> Option<Fp<Self, 1>> {
                let x = ((a.0).0[0] & 31) as usize;
                if x == 0 {
                    None
                } else {
                    Some(Self::el(Self::INV[x] as u64))
                }
            }
            fn from_bigint(other: BigInt<1>) -> Option<Fp<Self, 1>> {
                if other.0[0] < $p as u64 {
                    Some(Self::el(other.0[0]))
                } else {
                    None
                }
            }
            fn into_bigint(other: Fp<Self, 1>) -> BigInt<1> {
                other.0
            }
        }
        pub type $ty = Fp<$cfg, 1>;
        impl Tiny for $ty {
            const P: u32 = $p;
            const RINV: u32 = 1;
            const RMOD: u32 = 1;
            const BITS: u32 = $bits;
            fn from_limb(l: u64) -> Self {
                Fp(BigInt([l]), PhantomData)
            }
            fn limb(&self) -> u64 {
                (self.0).0[0]
            }
            fn val(&self) -> u32 {
                (self.limb() as u32) & Self::MASK
            }
            fn enc(v: u32) -> Self {
                Self::from_limb((v & Self::MASK) as u64)
            }
        }
    };
}

// p, generator, two-adicity s, ((p-1)/2^s - 1)/2, bits
plain_field!(PF13Config, PF13, 13, 2, 2, 1, 4);
plain_field!(PF17Config, PF17, 17, 3, 4, 0, 5);
plain_field!(PF5Config, PF5, 5, 2, 2, 0, 3);
plain_field!(PF3Config, PF3, 3, 2, 1, 0, 2);
// F_19: 18 = 2 * 3^2, so mixed-radix domains of size 3, 6, 9, 18 exist (C07)
plain_field!(PF19Config, PF19, 19, 2, 1, 4, 5, {
    const SMALL_SUBGROUP_BASE: Option<u32> = Some(3);
    const SMALL_SUBGROUP_BASE_ADICITY: Option<u32> = Some(2);
    const LARGE_SUBGROUP_ROOT_OF_UNITY: Option<Fp<Self, 1>> = Some(Self::el(2));
});
plain_field!(PF7Config, PF7, 7, 3, 1, 1, 3);
