//! C18 — container and derived serializations round-trip, size exactly, fail cleanly.
//! Round trips: serialize into a fixed buffer, check bytes written == serialized_size, deserialize in every
//! (compress, validate) mode and compare.  Malformed input: every byte string up to a bound offered to each
//! deserializer; any panic / overflow / capacity failure is a failed CBMC property.
use crate::sym::{any, assume};
use ark_serialize::{
    CanonicalDeserialize, CanonicalSerialize, Compress, CompressedChecked, CompressedUnchecked, SerializationError,
    UncompressedChecked, UncompressedUnchecked, Valid, Validate,
};
use ark_std::{
    borrow::Cow,
    collections::{BTreeMap, BTreeSet, LinkedList, VecDeque},
    io::{Read, Write},
    marker::PhantomData,
    rc::Rc,
    string::String,
    sync::Arc,
    vec::Vec,
};

const MODES: [(Compress, Validate); 4] = [
    (Compress::Yes, Validate::Yes),
    (Compress::Yes, Validate::No),
    (Compress::No, Validate::Yes),
    (Compress::No, Validate::No),
];

/// serialize into a CAP-byte buffer; returns (bytes written, reported size)
fn ser<T: CanonicalSerialize + ?Sized, const CAP: usize>(v: &T, c: Compress, buf: &mut [u8; CAP]) -> Option<(usize, usize)> {
    let mut w: &mut [u8] = &mut buf[..];
    if v.serialize_with_mode(&mut w, c).is_err() {
        return None;
    }
    let left = w.len();
    Some((CAP - left, v.serialized_size(c)))
}

/// round trip in a symbolically chosen mode (all four are covered by one query); `want` = expected size
fn roundtrip<T: CanonicalSerialize + CanonicalDeserialize + PartialEq, const CAP: usize>(v: &T, want: usize) -> bool {
    let c = if any::<bool>() { Compress::Yes } else { Compress::No };
    let val = if any::<bool>() { Validate::Yes } else { Validate::No };
    let mut buf = [0u8; CAP];
    match ser::<T, CAP>(v, c, &mut buf) {
        None => false,
        Some((written, size)) => {
            let mut ok = written == size && size == want;
            let mut r: &[u8] = &buf[..written];
            match T::deserialize_with_mode(&mut r, c, val) {
                Ok(back) => {
                    ok &= back == *v && r.is_empty();
                    core::mem::forget(back);
                },
                Err(_) => ok = false,
            }
            ok
        },
    }
}

/// truncating the encoding by one byte must fail cleanly
fn truncated_fails<T: CanonicalSerialize + CanonicalDeserialize, const CAP: usize>(v: &T) -> bool {
    let mut buf = [0u8; CAP];
    match ser::<T, CAP>(v, Compress::Yes, &mut buf) {
        Some((written, _)) if written > 0 => {
            let r = T::deserialize_with_mode(&buf[..written - 1], Compress::Yes, Validate::Yes);
            let e = r.is_err();
            core::mem::forget(r);
            e
        },
        _ => true,
    }
}

/// every byte string of length <= L offered to T's deserializer: Ok or Err, never a panic (decided by CBMC's panic/overflow checks);
/// an accepted value must re-serialize to at most the bytes consumed
fn malformed<T: CanonicalSerialize + CanonicalDeserialize, const L: usize>() -> bool {
    let bytes: [u8; L] = any();
    let len: usize = any();
    assume(len <= L);
    let c = if any::<bool>() { Compress::Yes } else { Compress::No };
    let v = if any::<bool>() { Validate::Yes } else { Validate::No };
    let mut r: &[u8] = &bytes[..len];
    let res = T::deserialize_with_mode(&mut r, c, v);
    let consumed = len - r.len();
    let ok = match &res {
        Ok(x) => x.serialized_size(c) == consumed,
        Err(_) => true,
    };
    crate::cover!(res.is_ok() && len > 0);
    crate::cover!(res.is_err());
    core::mem::forget(res);
    ok
}

// ---- toy element type whose compressed / uncompressed encodings differ and whose validity check can fail
#[derive(Clone, Copy, PartialEq, Eq, Debug)]
pub struct Pt(pub u8);
impl CanonicalSerialize for Pt {
    fn serialize_with_mode<W: Write>(&self, mut w: W, c: Compress) -> Result<(), SerializationError> {
        match c {
            Compress::Yes => self.0.serialize_with_mode(&mut w, c),
            Compress::No => {
                self.0.serialize_with_mode(&mut w, c)?;
                (!self.0).serialize_with_mode(&mut w, c)
            },
        }
    }
    fn serialized_size(&self, c: Compress) -> usize {
        match c {
            Compress::Yes => 1,
            Compress::No => 2,
        }
    }
}
impl Valid for Pt {
    fn check(&self) -> Result<(), SerializationError> {
        if self.0 & 1 == 0 {
            Ok(())
        } else {
            Err(SerializationError::InvalidData)
        }
    }
}
impl CanonicalDeserialize for Pt {
    fn deserialize_with_mode<R: Read>(mut r: R, c: Compress, v: Validate) -> Result<Self, SerializationError> {
        let a = u8::deserialize_with_mode(&mut r, c, v)?;
        if let Compress::No = c {
            let b = u8::deserialize_with_mode(&mut r, c, v)?;
            if b != !a {
                return Err(SerializationError::InvalidData);
            }
        }
        let p = Pt(a);
        if let Validate::Yes = v {
            p.check()?;
        }
        Ok(p)
    }
}

#[derive(CanonicalSerialize, CanonicalDeserialize, PartialEq, Eq, Debug, Clone)]
pub struct Named {
    pub a: u16,
    pub b: bool,
    pub c: Option<u8>,
}
#[derive(CanonicalSerialize, CanonicalDeserialize, PartialEq, Eq, Debug, Clone)]
pub struct Tup(pub u8, pub u32);
#[derive(CanonicalSerialize, CanonicalDeserialize, PartialEq, Eq, Debug, Clone)]
pub struct Nested {
    pub x: u8,
    pub t: (u16, (u8, bool)),
    pub p: Pt,
}
#[derive(CanonicalSerialize, CanonicalDeserialize, PartialEq, Eq, Debug, Clone)]
pub struct Gen<T: CanonicalSerialize + CanonicalDeserialize + Send + Sync> {
    pub v: [T; 2],
    pub m: PhantomData<T>,
}

fn any_pt() -> Pt {
    Pt(any::<u8>() & 0xfe)
}

/// wrappers pin the mode: bytes and reported size are those of the pinned mode whatever mode is requested
fn wrapper_check<W: CanonicalSerialize + CanonicalDeserialize, const CAP: usize>(w: &W, inner: Pt, pinned: Compress, get: fn(&W) -> Pt) -> bool {
    let c = if any::<bool>() { Compress::Yes } else { Compress::No };
    let val = if any::<bool>() { Validate::Yes } else { Validate::No };
    let mut buf = [0u8; CAP];
    let mut ibuf = [0u8; CAP];
    let (written, size) = ser::<W, CAP>(w, c, &mut buf).unwrap();
    let (iw, _) = ser::<Pt, CAP>(&inner, pinned, &mut ibuf).unwrap();
    let mut ok = written == size && written == iw && buf == ibuf;
    match W::deserialize_with_mode(&buf[..written], c, val) {
        Ok(b) => ok &= get(&b) == inner,
        Err(_) => ok = false,
    }
    ok
}

crate::harnesses! { REG;
    /// quick required | bool, u8, u16, u32, u64, i8, i16, i32, i64, usize, isize: ALL values round-trip in all 4 modes, bytes written == serialized_size, truncated input is Err
    #[unwind(10)]
    fn c18_rt_ints() {
        let (a, b, c, d, e): (bool, u8, u16, u32, u64) = (any(), any(), any(), any(), any());
        let (f, g, h, i): (i8, i16, i32, i64) = (any(), any(), any(), any());
        let (j, k): (usize, isize) = (any(), any());
        crate::cover!(e > u32::MAX as u64 && i < 0);
        let ok = roundtrip::<_, 1>(&a, 1) && roundtrip::<_, 1>(&b, 1) && roundtrip::<_, 2>(&c, 2) && roundtrip::<_, 4>(&d, 4) && roundtrip::<_, 8>(&e, 8)
            && roundtrip::<_, 1>(&f, 1) && roundtrip::<_, 2>(&g, 2) && roundtrip::<_, 4>(&h, 4) && roundtrip::<_, 8>(&i, 8)
            && roundtrip::<_, 8>(&j, 8) && roundtrip::<_, 8>(&k, 8);
        assert!(ok);
    }
    /// quick required | Option<u16>, Option<Option<bool>>, tuples of arity 0..5, [u16; 3], [bool; 0], PhantomData: ALL values round-trip, exact size
    #[unwind(10)]
    fn c18_rt_option_tuple_array() {
        let o: Option<u16> = if any() { Some(any()) } else { None };
        let oo: Option<Option<bool>> = if any() { Some(if any() { Some(any()) } else { None }) } else { None };
        let t5: (u8, u16, bool, u32, i8) = (any(), any(), any(), any(), any());
        let t2: (u8, (u16, bool)) = (any(), (any(), any()));
        let arr: [u16; 3] = any();
        let e: [bool; 0] = [];
        let so = if o.is_some() { 3 } else { 1 };
        let soo = match oo { None => 1, Some(None) => 2, Some(Some(_)) => 3 };
        crate::cover!(o.is_some() && matches!(oo, Some(None)));
        let ok = roundtrip::<_, 3>(&o, so) && roundtrip::<_, 3>(&oo, soo) && roundtrip::<_, 9>(&t5, 9) && roundtrip::<_, 4>(&t2, 4)
            && roundtrip::<_, 1>(&(), 0) && roundtrip::<_, 1>(&(t5.0,), 1) && roundtrip::<_, 6>(&arr, 6) && roundtrip::<_, 1>(&e, 0)
            && roundtrip::<_, 1>(&PhantomData::<u64>, 0);
        assert!(ok);
    }
    /// quick required | Vec<u16> of length 0, 1, 3 with ALL element values: round-trip in every mode, size = 8 + 2n, truncated encoding is Err
    #[unwind(12)]
    fn c18_rt_vec() {
        let e: [u16; 3] = any();
        let (v0, v1, v3): (Vec<u16>, Vec<u16>, Vec<u16>) = (Vec::new(), e[..1].to_vec(), e.to_vec());
        crate::cover!(e[2] > 255);
        let ok = roundtrip::<_, 8>(&v0, 8) && roundtrip::<_, 10>(&v1, 10) && roundtrip::<_, 14>(&v3, 14) && truncated_fails::<_, 14>(&v3);
        core::mem::forget((v0, v1, v3));
        assert!(ok);
    }
    /// quick required | VecDeque<u8> with a WRAPPED ring buffer (push_back, push_front, push_back; two non-empty slices), ALL element values: round-trip, size = 8 + n
    #[unwind(12)]
    fn c18_rt_vecdeque() {
        let e: [u8; 3] = any();
        let mut d: VecDeque<u8> = VecDeque::new();
        d.push_back(e[0]);
        d.push_front(e[1]);
        d.push_back(e[2]);
        crate::cover!(d.as_slices().1.len() > 0 && d.as_slices().0.len() > 0);
        let ok = roundtrip::<_, 11>(&d, 11) && d.front() == Some(&e[1]) && d.back() == Some(&e[2]);
        core::mem::forget(d);
        assert!(ok);
    }
    /// quick required | VecDeque<u8> empty and after push_front/pop_back churn: round-trip
    #[unwind(12)]
    fn c18_rt_vecdeque_small() {
        let e: [u8; 2] = any();
        let d0: VecDeque<u8> = VecDeque::new();
        let mut d1: VecDeque<u8> = VecDeque::new();
        d1.push_front(e[0]);
        d1.push_front(e[1]);
        let _ = d1.pop_back();
        crate::cover!(e[1] == 7);
        let ok = roundtrip::<_, 8>(&d0, 8) && roundtrip::<_, 9>(&d1, 9) && d1.front() == Some(&e[1]);
        core::mem::forget((d0, d1));
        assert!(ok);
    }
    /// quick required | LinkedList<u8> of length 0 and 2, ALL elements: round-trip, size = 8 + n
    #[unwind(12)]
    fn c18_rt_linkedlist() {
        let e: [u8; 2] = any();
        let l0: LinkedList<u8> = LinkedList::new();
        let mut l2: LinkedList<u8> = LinkedList::new();
        l2.push_back(e[0]);
        l2.push_back(e[1]);
        crate::cover!(e[0] > e[1]);
        let ok = roundtrip::<_, 8>(&l0, 8) && roundtrip::<_, 10>(&l2, 10);
        core::mem::forget((l0, l2));
        assert!(ok);
    }
    /// thorough attempt timeout=3000 mem=30 | String: empty, and two characters (one ASCII byte symbolic over all values < 0x80): round-trip, size = 8 + n
    #[unwind(12)]
    fn c18_rt_string() {
        let c: u8 = any();
        assume(c < 0x80);
        let s0 = String::new();
        let mut s2 = String::new();
        s2.push(c as char);
        s2.push('z');
        crate::cover!(c == 0x41);
        let ok = roundtrip::<_, 8>(&s0, 8) && roundtrip::<_, 10>(&s2, 10);
        core::mem::forget((s0, s2));
        assert!(ok);
    }
    /// thorough attempt timeout=3000 mem=30 | BTreeMap<u8,u16> / BTreeSet<u8> built from insertions with key patterns (1,2), (2,1), (5,5) and ALL values: round-trip, exact size, later duplicate wins
    #[unwind(12)]
    fn c18_rt_btree() {
        let v: [u16; 2] = any();
        let mut ok = true;
        let pats: [(u8, u8); 3] = [(1, 2), (2, 1), (5, 5)];
        let mut t = 0;
        while t < 3 {
            let (k0, k1) = pats[t];
            let mut m = BTreeMap::new();
            let mut s = BTreeSet::new();
            m.insert(k0, v[0]);
            m.insert(k1, v[1]);
            s.insert(k0);
            s.insert(k1);
            let l = m.len();
            ok = ok && l == if k0 == k1 { 1 } else { 2 } && roundtrip::<_, 14>(&m, 8 + 3 * l) && roundtrip::<_, 10>(&s, 8 + l);
            core::mem::forget((m, s));
            t += 1;
        }
        crate::cover!(v[0] != v[1]);
        assert!(ok);
    }
    /// thorough attempt timeout=3000 mem=30 | BTreeMap<u8,u16> built from 2 insertions with ALL keys and values: round-trip, exact size
    #[unwind(12)]
    fn c18_rt_btree_symkeys() {
        let k: [u8; 2] = any();
        let v: [u16; 2] = any();
        let mut m = BTreeMap::new();
        m.insert(k[0], v[0]);
        m.insert(k[1], v[1]);
        let l = m.len();
        crate::cover!(l == 1);
        crate::cover!(l == 2 && k[0] > k[1]);
        let ok = roundtrip::<_, 14>(&m, 8 + 3 * l);
        core::mem::forget(m);
        assert!(ok);
    }
    /// quick required | Rc<u16>, Arc<u16>, Cow<u16>, &[u16]-as-Vec agreement: ALL values; wrappers serialize exactly like the inner value
    #[unwind(12)]
    fn c18_rt_smart_pointers() {
        let x: u16 = any();
        let rc = Rc::new(x);
        let arc = Arc::new(x);
        let cow: Cow<'_, u16> = Cow::Borrowed(&x);
        let mut b1 = [0u8; 2];
        let mut b2 = [0u8; 2];
        let mut b3 = [0u8; 2];
        let r1 = ser::<_, 2>(&rc, Compress::Yes, &mut b1);
        let r2 = ser::<_, 2>(&arc, Compress::No, &mut b2);
        let r3 = ser::<_, 2>(&cow, Compress::Yes, &mut b3);
        let back_arc = Arc::<u16>::deserialize_with_mode(&b2[..], Compress::No, Validate::Yes);
        let back_cow = Cow::<'_, u16>::deserialize_with_mode(&b3[..], Compress::Yes, Validate::Yes);
        crate::cover!(x > 255);
        let mut ok = r1 == Some((2, 2)) && r2 == Some((2, 2)) && r3 == Some((2, 2));
        ok &= b1 == x.to_le_bytes() && b2 == b1 && b3 == b1;
        ok &= matches!(&back_arc, Ok(a) if **a == x) && matches!(&back_cow, Ok(c) if **c == x);
        // slices serialize like vectors
        let sl: &[u16] = &[x, x];
        let mut b4 = [0u8; 12];
        ok &= ser::<_, 12>(&sl, Compress::Yes, &mut b4) == Some((12, 12)) && b4[0] == 2 && b4[8..10] == b1;
        core::mem::forget((rc, arc, back_arc, back_cow));
        assert!(ok);
    }
    /// quick required | mode-pinning wrappers (CompressedUnchecked, UncompressedUnchecked, CompressedChecked, UncompressedChecked) around a type whose two encodings differ: bytes AND reported size are those of the pinned mode in every requested mode
    #[unwind(12)]
    fn c18_rt_mode_wrappers() {
        let p = any_pt();
        crate::cover!(p.0 > 3);
        let ok = wrapper_check::<_, 2>(&CompressedUnchecked(p), p, Compress::Yes, |w| w.0)
            && wrapper_check::<_, 2>(&UncompressedUnchecked(p), p, Compress::No, |w| w.0)
            && wrapper_check::<_, 2>(&CompressedChecked(p), p, Compress::Yes, |w| w.0)
            && wrapper_check::<_, 2>(&UncompressedChecked(p), p, Compress::No, |w| w.0);
        assert!(ok);
    }
    /// quick required | mode-pinning wrappers: Checked variants reject an invalid inner value even under Validate::No, Unchecked accept it even under Validate::Yes
    #[unwind(12)]
    fn c18_wrappers_validation() {
        let a: u8 = any();
        let bytes = [a, !a];
        let invalid = a & 1 == 1;
        crate::cover!(invalid);
        let cc = CompressedChecked::<Pt>::deserialize_with_mode(&bytes[..1], Compress::No, Validate::No);
        let uc = UncompressedChecked::<Pt>::deserialize_with_mode(&bytes[..], Compress::Yes, Validate::No);
        let cu = CompressedUnchecked::<Pt>::deserialize_with_mode(&bytes[..1], Compress::No, Validate::Yes);
        let uu = UncompressedUnchecked::<Pt>::deserialize_with_mode(&bytes[..], Compress::Yes, Validate::Yes);
        let ok = cc.is_err() == invalid && uc.is_err() == invalid && cu.is_ok() && uu.is_ok();
        assert!(ok);
    }
    /// quick required | derived impls: struct with named fields, tuple struct, nested-tuple field, generic struct: ALL field values round-trip; size = sum of field sizes in each mode
    #[unwind(12)]
    fn c18_rt_derive() {
        let n = Named { a: any(), b: any(), c: if any() { Some(any()) } else { None } };
        let t = Tup(any(), any());
        let p = any_pt();
        let ne = Nested { x: any(), t: (any(), (any(), any())), p };
        let g = Gen::<u16> { v: any(), m: PhantomData };
        crate::cover!(n.c.is_some() && ne.t.1 .1);
        let sn = 2 + 1 + if n.c.is_some() { 2 } else { 1 };
        let mut ok = roundtrip::<_, 5>(&n, sn) && roundtrip::<_, 5>(&t, 5) && roundtrip::<_, 4>(&g, 4);
        // Nested contains Pt: size differs per mode
        let mut b = [0u8; 7];
        ok &= ser::<_, 7>(&ne, Compress::Yes, &mut b) == Some((6, 6));
        ok &= matches!(Nested::deserialize_with_mode(&b[..6], Compress::Yes, Validate::Yes), Ok(x) if x == ne);
        ok &= ser::<_, 7>(&ne, Compress::No, &mut b) == Some((7, 7));
        ok &= matches!(Nested::deserialize_with_mode(&b[..], Compress::No, Validate::Yes), Ok(x) if x == ne);
        assert!(ok);
    }
    /// quick required | derived Valid: a struct containing an invalid field is rejected under Validate::Yes and accepted under Validate::No (ALL byte values)
    #[unwind(12)]
    fn c18_derive_validation() {
        let bytes: [u8; 6] = any();
        assume(bytes[4] < 2);
        let invalid = bytes[5] & 1 == 1;
        crate::cover!(invalid);
        let y = Nested::deserialize_with_mode(&bytes[..], Compress::Yes, Validate::Yes);
        let n = Nested::deserialize_with_mode(&bytes[..], Compress::Yes, Validate::No);
        let ok = y.is_err() == invalid && n.is_ok();
        assert!(ok);
    }
    /// quick required | BigInt<2>: ALL values round-trip in every mode; exactly 16 bytes
    #[unwind(20)]
    fn c18_rt_bigint() {
        let l: [u64; 2] = any();
        let x = ark_ff::BigInt::<2>(l);
        crate::cover!(l[1] != 0);
        let ok = roundtrip::<_, 16>(&x, 16);
        assert!(ok);
    }
    /// thorough attempt | BigUint from 2 arbitrary bytes: round-trip, size = 8 + number of significant bytes
    #[unwind(20)]
    fn c18_rt_biguint() {
        let by: [u8; 2] = any();
        let bu = num_bigint::BigUint::from_bytes_le(&by);
        let digits = if by[1] != 0 { 2 } else { 1 };
        crate::cover!(by[1] != 0);
        let ok = roundtrip::<_, 10>(&bu, 8 + digits);
        core::mem::forget(bu);
        assert!(ok);
    }

    /// quick required | malformed input: bool, u16, u64, i32, usize, Option<u16>, (u8,bool), [u16;2] from EVERY byte string of length 0..=4/9: no panic, bool outside {0,1} is Err
    #[unwind(12)]
    fn c18_bad_scalars() {
        let mut ok = malformed::<bool, 2>() && malformed::<u16, 3>() && malformed::<u64, 9>() && malformed::<i32, 5>() && malformed::<usize, 9>();
        ok &= malformed::<Option<u16>, 4>() && malformed::<(u8, bool), 3>() && malformed::<[u16; 2], 5>();
        let b: u8 = any();
        crate::cover!(b > 1);
        ok &= bool::deserialize_with_mode(&[b][..], Compress::Yes, Validate::Yes).is_ok() == (b < 2);
        ok &= Option::<u8>::deserialize_with_mode(&[b, 7][..], Compress::Yes, Validate::Yes).is_ok() == (b < 2);
        assert!(ok);
    }
    /// quick required | malformed input: Vec<u8> from EVERY byte string of length 0..=10 (any length prefix, including oversized): Ok or Err, never a capacity-overflow panic or an allocation driven by the prefix
    #[unwind(13)]
    fn c18_bad_vec_u8() {
        let ok = malformed::<Vec<u8>, 10>();
        assert!(ok);
    }
    /// quick required | malformed input: Vec<u32> from EVERY byte string of length 0..=12 (prefix * element size overflows isize for large prefixes)
    #[unwind(15)]
    fn c18_bad_vec_u32() {
        let ok = malformed::<Vec<u32>, 12>();
        assert!(ok);
    }
    /// quick required | malformed input: VecDeque<u16> from EVERY byte string of length 0..=10
    #[unwind(13)]
    fn c18_bad_vecdeque() {
        let ok = malformed::<VecDeque<u16>, 10>();
        assert!(ok);
    }
    /// quick required | malformed input: LinkedList<u8> from EVERY byte string of length 0..=10
    #[unwind(13)]
    fn c18_bad_linkedlist() {
        let ok = malformed::<LinkedList<u8>, 10>();
        assert!(ok);
    }
    /// thorough attempt timeout=3000 | malformed input: String from EVERY byte string of length 0..=10: invalid UTF-8 is Err, oversized prefix is Err
    #[unwind(13)]
    fn c18_bad_string() {
        let bytes: [u8; 10] = any();
        let len: usize = any();
        assume(len <= 10);
        let res = String::deserialize_with_mode(&bytes[..len], Compress::Yes, Validate::Yes);
        crate::cover!(res.is_ok() && len == 10);
        crate::cover!(res.is_err() && len == 10 && bytes[0] == 2 && bytes[1] == 0);
        let ok = match &res {
            Ok(s) => core::str::from_utf8(s.as_bytes()).is_ok() && s.len() as u64 == u64::from_le_bytes([bytes[0], bytes[1], bytes[2], bytes[3], bytes[4], bytes[5], bytes[6], bytes[7]]),
            Err(_) => true,
        };
        core::mem::forget(res);
        assert!(ok);
    }
    /// thorough attempt timeout=3000 mem=30 | malformed input: String: a 1-byte payload with ALL byte values: Ok exactly for ASCII; truncated payload and oversized prefix are Err
    #[unwind(13)]
    fn c18_bad_string_1() {
        let b: u8 = any();
        let hi: u8 = any();
        let enc = [1u8, 0, 0, 0, 0, 0, 0, 0, b];
        let res = String::deserialize_with_mode(&enc[..], Compress::Yes, Validate::Yes);
        let short = String::deserialize_with_mode(&enc[..8], Compress::Yes, Validate::Yes);
        let big = [1u8, 0, 0, 0, 0, 0, 0, hi, b];
        let over = String::deserialize_with_mode(&big[..], Compress::Yes, Validate::Yes);
        crate::cover!(b >= 0x80);
        crate::cover!(b < 0x80 && hi > 0);
        let ok = res.is_ok() == (b < 0x80) && short.is_err() && (hi == 0 || over.is_err());
        core::mem::forget((res, short, over));
        assert!(ok);
    }
    /// thorough attempt timeout=3000 mem=30 | malformed input: String: a 2-byte payload with ALL byte values: Ok exactly for valid UTF-8; truncated payload is Err
    #[unwind(13)]
    fn c18_bad_string_utf8() {
        let b: [u8; 2] = any();
        let enc = [2u8, 0, 0, 0, 0, 0, 0, 0, b[0], b[1]];
        let res = String::deserialize_with_mode(&enc[..], Compress::Yes, Validate::Yes);
        let short = String::deserialize_with_mode(&enc[..9], Compress::Yes, Validate::Yes);
        let valid = core::str::from_utf8(&b).is_ok();
        crate::cover!(valid && b[0] >= 0x80);
        crate::cover!(!valid);
        let ok = res.is_ok() == valid && short.is_err();
        core::mem::forget((res, short));
        assert!(ok);
    }
    /// thorough attempt timeout=3000 mem=30 | malformed input: BTreeMap<u8,u8> and BTreeSet<u8> from EVERY byte string of length 0..=11
    #[unwind(14)]
    fn c18_bad_btree() {
        let ok = malformed::<BTreeMap<u8, u8>, 11>() && malformed::<BTreeSet<u8>, 10>();
        assert!(ok);
    }
    /// thorough required | malformed input: BigUint, BigInt<1>, derived structs (Named, Nested) from EVERY byte string of length 0..=10
    #[unwind(14)]
    fn c18_bad_misc() {
        let ok = malformed::<num_bigint::BigUint, 10>() && malformed::<ark_ff::BigInt<1>, 9>() && malformed::<Named, 6>() && malformed::<Nested, 8>();
        assert!(ok);
    }
}
