//! C03 — curve point operations realise the elliptic-curve group law.
//! Real short_weierstrass / twisted_edwards model code over toy curves; points are drawn as TABLE[i] with a symbolic
//! index (so ALL points of E(F_p), identity included) and rescaled by a symbolic non-zero Z.  Oracle: the brute-force
//! addition table of `toy_curves` (textbook affine group law computed in Python).
use crate::fields::Tiny;
use crate::sym::{any, assume};
use crate::toy_curves::*;
use ark_ec::{
    short_weierstrass::{self as sw, SWCurveConfig},
    twisted_edwards::{self as te, TECurveConfig},
    AffineRepr, CurveGroup,
};
use ark_ff::{AdditiveGroup, Field, Zero};
use ark_std::vec::Vec;

pub fn mm(a: u32, b: u32, p: u32) -> u32 {
    (a * b) % p // p <= 17: no overflow
}
pub fn any_index<C: Toy>() -> usize {
    let i: usize = any();
    assume(i < C::T.n);
    i
}
pub fn any_nz(p: u32) -> u32 {
    let z: u32 = any();
    assume(z >= 1 && z < p);
    z
}

// ---- short Weierstrass ---------------------------------------------------------------------------
pub fn sw_affine<C: SWCurveConfig + Toy>(i: usize) -> sw::Affine<C>
where
    C::BaseField: Tiny,
{
    if i == 0 {
        sw::Affine::identity()
    } else {
        let (x, y) = C::T.pts[i];
        sw::Affine::new_unchecked(C::BaseField::enc(x), C::BaseField::enc(y))
    }
}
/// Jacobian representative (x z^2, y z^3, z); the identity as (X, Y, 0) with arbitrary X, Y
pub fn sw_proj<C: SWCurveConfig + Toy>(i: usize, z: u32) -> sw::Projective<C>
where
    C::BaseField: Tiny,
{
    let p = C::T.p;
    if i == 0 {
        let (x, y): (u32, u32) = (any(), any());
        assume(x < p && y < p);
        sw::Projective::new_unchecked(C::BaseField::enc(x), C::BaseField::enc(y), C::BaseField::enc(0))
    } else {
        let (x, y) = C::T.pts[i];
        let z2 = mm(z, z, p);
        sw::Projective::new_unchecked(C::BaseField::enc(mm(x, z2, p)), C::BaseField::enc(mm(y, mm(z2, z, p), p)), C::BaseField::enc(z))
    }
}
/// does the Jacobian point denote table point `want`?
pub fn sw_is<C: SWCurveConfig + Toy>(r: &sw::Projective<C>, want: usize) -> bool
where
    C::BaseField: Tiny,
{
    let p = C::T.p;
    let (x, y, z) = (r.x.val(), r.y.val(), r.z.val());
    if want == 0 {
        z == 0
    } else {
        let (wx, wy) = C::T.pts[want];
        let z2 = mm(z, z, p);
        z != 0 && x == mm(wx, z2, p) && y == mm(wy, mm(z2, z, p), p)
    }
}
pub fn sw_aff_is<C: SWCurveConfig + Toy>(r: &sw::Affine<C>, want: usize) -> bool
where
    C::BaseField: Tiny,
{
    if want == 0 {
        r.infinity
    } else {
        !r.infinity && (r.x.val(), r.y.val()) == C::T.pts[want]
    }
}

fn sw_add<C: SWCurveConfig + Toy>()
where
    C::BaseField: Tiny,
{
    let (i, j) = (any_index::<C>(), any_index::<C>());
    let (z1, z2) = (any_nz(C::T.p), any_nz(C::T.p));
    let (a, b) = (sw_proj::<C>(i, z1), sw_proj::<C>(j, z2));
    let want = C::T.add_ix(i, j);
    let s1 = a + &b;
    let mut s2 = a;
    s2 += &b;
    let d = a - &b;
    crate::cover!(i == j && i != 0);
    crate::cover!(j == C::T.neg[i] as usize && i != 0 && i != j);
    crate::cover!(i == 0 && j != 0);
    let ok = sw_is(&s1, want) && sw_is(&s2, want) && sw_is(&d, C::T.add_ix(i, C::T.neg[j] as usize));
    assert!(ok);
}
fn sw_madd<C: SWCurveConfig + Toy>()
where
    C::BaseField: Tiny,
{
    let (i, j) = (any_index::<C>(), any_index::<C>());
    let z1 = any_nz(C::T.p);
    let (a, b) = (sw_proj::<C>(i, z1), sw_affine::<C>(j));
    let want = C::T.add_ix(i, j);
    let s1 = a + b;
    let mut s2 = a;
    s2 += &b;
    let d = a - b;
    let s3 = b + a; // Affine + Projective
    crate::cover!(i == j && i != 0);
    crate::cover!(j == C::T.neg[i] as usize && i != 0 && i != j);
    crate::cover!(i == 0 && j != 0);
    crate::cover!(j == 0 && i != 0);
    let ok = sw_is(&s1, want) && sw_is(&s2, want) && sw_is(&s3, want) && sw_is(&d, C::T.add_ix(i, C::T.neg[j] as usize));
    assert!(ok);
}
fn sw_affine_ops<C: SWCurveConfig + Toy>()
where
    C::BaseField: Tiny,
{
    // Affine + Affine, Affine - Affine, -Affine, is_on_curve, From / into_affine
    let (i, j) = (any_index::<C>(), any_index::<C>());
    let (a, b) = (sw_affine::<C>(i), sw_affine::<C>(j));
    let s = a + b;
    let d = a - b;
    let n = -a;
    let pj: sw::Projective<C> = a.into();
    let back = sw_proj::<C>(i, any_nz(C::T.p)).into_affine();
    crate::cover!(i == j && i != 0);
    crate::cover!(i != 0 && C::T.neg[i] as usize == i);
    let mut ok = sw_is(&s, C::T.add_ix(i, j)) && sw_is(&d, C::T.add_ix(i, C::T.neg[j] as usize));
    ok &= sw_aff_is(&n, C::T.neg[i] as usize) && a.is_on_curve() && sw_is(&pj, i) && sw_aff_is(&back, i) && back == a;
    ok &= a.is_zero() == (i == 0);
    assert!(ok);
}
fn sw_double_neg_eq<C: SWCurveConfig + Toy>()
where
    C::BaseField: Tiny,
{
    let (i, j) = (any_index::<C>(), any_index::<C>());
    let (z1, z2) = (any_nz(C::T.p), any_nz(C::T.p));
    let (a, b) = (sw_proj::<C>(i, z1), sw_proj::<C>(j, z2));
    let dbl = a.double();
    let mut d2 = a;
    d2.double_in_place();
    let n = -a;
    let baff = sw_affine::<C>(j);
    crate::cover!(i == j && z1 != z2 && i != 0);
    crate::cover!(i != 0 && C::T.ord[i] == 2);
    crate::cover!(i == 0 && j == 0);
    let mut ok = sw_is(&dbl, C::T.add_ix(i, i)) && sw_is(&d2, C::T.add_ix(i, i)) && sw_is(&n, C::T.neg[i] as usize);
    // projective equality does not depend on the representative; Projective == Affine
    ok &= (a == b) == (i == j) && (a == baff) == (i == j) && (baff == a) == (i == j) && a.is_zero() == (i == 0);
    assert!(ok);
}
fn sw_batch<C: SWCurveConfig + Toy, const L: usize>()
where
    C::BaseField: Tiny,
{
    let idx: [usize; L] = core::array::from_fn(|_| any_index::<C>());
    let v: [sw::Projective<C>; L] = core::array::from_fn(|k| sw_proj::<C>(idx[k], any_nz(C::T.p)));
    let out = sw::Projective::<C>::normalize_batch(&v);
    let sum: sw::Projective<C> = v.iter().sum();
    let mut ok = out.len() == L;
    let mut want = 0usize;
    let mut zeros = 0;
    let mut k = 0;
    while k < L {
        ok = ok && sw_aff_is(&out[k], idx[k]);
        want = C::T.add_ix(want, idx[k]);
        if idx[k] == 0 {
            zeros += 1;
        }
        k += 1;
    }
    crate::cover!(L == 0 || (zeros > 0 && zeros < L) || L == 1);
    ok = ok && sw_is(&sum, want);
    core::mem::forget(out);
    assert!(ok);
}

// ---- twisted Edwards ---------------------------------------------------------------------------------
pub fn te_affine<C: TECurveConfig + Toy>(i: usize) -> te::Affine<C>
where
    C::BaseField: Tiny,
{
    let (x, y) = C::T.pts[i];
    te::Affine::new_unchecked(C::BaseField::enc(x), C::BaseField::enc(y))
}
/// extended representative (xZ, yZ, xyZ, Z)
pub fn te_proj<C: TECurveConfig + Toy>(i: usize, z: u32) -> te::Projective<C>
where
    C::BaseField: Tiny,
{
    let p = C::T.p;
    let (x, y) = C::T.pts[i];
    te::Projective::new_unchecked(
        C::BaseField::enc(mm(x, z, p)),
        C::BaseField::enc(mm(y, z, p)),
        C::BaseField::enc(mm(mm(x, y, p), z, p)),
        C::BaseField::enc(z),
    )
}
pub fn te_is<C: TECurveConfig + Toy>(r: &te::Projective<C>, want: usize) -> bool
where
    C::BaseField: Tiny,
{
    let p = C::T.p;
    let (x, y, t, z) = (r.x.val(), r.y.val(), r.t.val(), r.z.val());
    let (wx, wy) = C::T.pts[want];
    z != 0 && x == mm(wx, z, p) && y == mm(wy, z, p) && mm(t, z, p) == mm(x, y, p)
}
/// index drawn from the whole curve (complete law) or from the prime-order subgroup only
pub fn te_index<C: Toy>(subgroup_only: bool) -> usize {
    let i = any_index::<C>();
    assume(!subgroup_only || C::T.insub[i]);
    i
}
fn te_add<C: TECurveConfig + Toy>(sub: bool)
where
    C::BaseField: Tiny,
{
    let (i, j) = (te_index::<C>(sub), te_index::<C>(sub));
    let (z1, z2) = (any_nz(C::T.p), any_nz(C::T.p));
    let (a, b) = (te_proj::<C>(i, z1), te_proj::<C>(j, z2));
    let baff = te_affine::<C>(j);
    let want = C::T.add_ix(i, j);
    let s1 = a + &b;
    let mut s2 = a;
    s2 += &b;
    let s3 = a + baff;
    let d = a - &b;
    crate::cover!(i == j && i != 0);
    crate::cover!(j == C::T.neg[i] as usize && i != 0);
    crate::cover!(i == 0 && j != 0);
    let ok = te_is(&s1, want) && te_is(&s2, want) && te_is(&s3, want) && te_is(&d, C::T.add_ix(i, C::T.neg[j] as usize));
    assert!(ok);
}
fn te_misc<C: TECurveConfig + Toy>(sub: bool)
where
    C::BaseField: Tiny,
{
    let (i, j) = (te_index::<C>(sub), te_index::<C>(sub));
    let (z1, z2) = (any_nz(C::T.p), any_nz(C::T.p));
    let (a, b) = (te_proj::<C>(i, z1), te_proj::<C>(j, z2));
    let (aaff, baff) = (te_affine::<C>(i), te_affine::<C>(j));
    let dbl = a.double();
    let n = -a;
    let back = a.into_affine();
    let pj: te::Projective<C> = aaff.into();
    let sa = aaff + baff;
    crate::cover!(i == j && z1 != z2 && i != 0);
    crate::cover!(i != 0 && C::T.ord[i] == 2);
    let mut ok = te_is(&dbl, C::T.add_ix(i, i)) && te_is(&n, C::T.neg[i] as usize) && back == aaff && te_is(&pj, i) && te_is(&sa, C::T.add_ix(i, j));
    ok &= (a == b) == (i == j) && (a == baff) == (i == j) && a.is_zero() == (i == 0) && aaff.is_on_curve() && aaff.is_zero() == (i == 0);
    assert!(ok);
}
fn te_batch<C: TECurveConfig + Toy, const L: usize>(sub: bool)
where
    C::BaseField: Tiny,
{
    let idx: [usize; L] = core::array::from_fn(|_| te_index::<C>(sub));
    let v: [te::Projective<C>; L] = core::array::from_fn(|k| te_proj::<C>(idx[k], any_nz(C::T.p)));
    let out = te::Projective::<C>::normalize_batch(&v);
    let sum: te::Projective<C> = v.iter().sum();
    let mut ok = out.len() == L;
    let mut want = 0usize;
    let mut k = 0;
    while k < L {
        ok = ok && out[k] == te_affine::<C>(idx[k]);
        want = C::T.add_ix(want, idx[k]);
        k += 1;
    }
    crate::cover!(L == 0 || idx[0] != 0);
    ok = ok && te_is(&sum, want);
    core::mem::forget(out);
    assert!(ok);
}

crate::harnesses! { REG;
    /// quick required | SW y^2=x^3+b (a=0, order 19) over F_13: Projective +, +=, - for ALL ordered pairs of points (identity, P+P, P+(-P) included), both operands with ALL non-zero Jacobian rescalings, vs brute-force addition table
    #[unwind(12)]
    fn c03_sw_add_a0() { sw_add::<SwA0>() }
    /// quick required | SW a != 0 (order 17) over F_13: Projective +, +=, - for ALL ordered pairs and ALL rescalings
    #[unwind(12)]
    fn c03_sw_add_a() { sw_add::<SwA>() }
    /// quick required | SW cofactor 4 with 2-torsion (order 20) over F_13: Projective +, +=, - for ALL ordered pairs and ALL rescalings
    #[unwind(12)]
    fn c03_sw_add_cof4() { sw_add::<SwCof4>() }
    /// quick required | SW a=0: mixed addition Projective + Affine, +=, -, Affine + Projective: ALL ordered pairs, ALL rescalings
    #[unwind(12)]
    fn c03_sw_madd_a0() { sw_madd::<SwA0>() }
    /// quick required | SW a != 0: mixed addition: ALL ordered pairs, ALL rescalings
    #[unwind(12)]
    fn c03_sw_madd_a() { sw_madd::<SwA>() }
    /// quick required | SW cofactor 4: mixed addition: ALL ordered pairs, ALL rescalings
    #[unwind(12)]
    fn c03_sw_madd_cof4() { sw_madd::<SwCof4>() }
    /// quick required | SW a=0: Affine + Affine, Affine - Affine, -Affine, is_on_curve, From<Affine>, into_affine: ALL pairs
    #[unwind(12)]
    fn c03_sw_affine_a0() { sw_affine_ops::<SwA0>() }
    /// quick required | SW cofactor 4 (2-torsion): Affine + Affine, Affine - Affine, -Affine, is_on_curve, From<Affine>, into_affine: ALL pairs
    #[unwind(12)]
    fn c03_sw_affine_cof4() { sw_affine_ops::<SwCof4>() }
    /// thorough required | SW a != 0: Affine + Affine etc.: ALL pairs
    #[unwind(12)]
    fn c03_sw_affine_a() { sw_affine_ops::<SwA>() }
    /// quick required | SW a=0 (dbl-2009-l): double, double_in_place, neg; projective == independent of representative; Projective == Affine: ALL pairs, ALL rescalings
    #[unwind(12)]
    fn c03_sw_dbl_eq_a0() { sw_double_neg_eq::<SwA0>() }
    /// quick required | SW a != 0 (dbl-2007-bl): double, neg, equality: ALL pairs, ALL rescalings
    #[unwind(12)]
    fn c03_sw_dbl_eq_a() { sw_double_neg_eq::<SwA>() }
    /// quick required | SW cofactor 4 (points of order two): double, neg, equality: ALL pairs, ALL rescalings
    #[unwind(12)]
    fn c03_sw_dbl_eq_cof4() { sw_double_neg_eq::<SwCof4>() }
    /// thorough required | SW b = 0 (full 2-torsion, the order-two point (0, 0) has the coordinates of the stored identity): Projective +, +=, -: ALL ordered pairs, ALL rescalings
    #[unwind(12)]
    fn c03_sw_add_b0() { sw_add::<SwB0>() }
    /// quick required | SW b = 0 (the order-two point (0, 0) vs the identity stored as (0, 0, infinity)): mixed addition Projective + Affine, +=, -, Affine + Projective: ALL ordered pairs, ALL rescalings
    #[unwind(12)]
    fn c03_sw_madd_b0() { sw_madd::<SwB0>() }
    /// quick required | SW b = 0: Affine + Affine, Affine - Affine, -Affine, is_on_curve, is_zero, From<Affine>, into_affine: ALL pairs ((0, 0) and the identity included)
    #[unwind(12)]
    fn c03_sw_affine_b0() { sw_affine_ops::<SwB0>() }
    /// quick required | SW b = 0: double, neg, equality (Projective == Projective, Projective == Affine with (0, 0) against the identity): ALL pairs, ALL rescalings
    #[unwind(12)]
    fn c03_sw_dbl_eq_b0() { sw_double_neg_eq::<SwB0>() }
    /// thorough attempt timeout=3000 | SW cofactor 4: normalize_batch and Sum over ALL vectors of 0, 1 and 2 points (any subset identities), ALL rescalings
    #[unwind(12)]
    fn c03_sw_batch_cof4() { sw_batch::<SwCof4, 0>(); sw_batch::<SwCof4, 1>(); sw_batch::<SwCof4, 2>() }
    /// thorough attempt timeout=3000 | SW a=0: normalize_batch and Sum over ALL vectors of 3 points
    #[unwind(12)]
    fn c03_sw_batch3_a0() { sw_batch::<SwA0, 3>() }

    /// thorough attempt timeout=3000 mem=30 | SW cofactor 4: normalize_batch and Sum over ALL single points and the empty vector, ALL rescalings
    #[unwind(12)]
    fn c03_sw_batch1_cof4() { sw_batch::<SwCof4, 0>(); sw_batch::<SwCof4, 1>() }
    /// thorough attempt timeout=3000 mem=30 | TE complete: normalize_batch and Sum over ALL single points and the empty vector
    #[unwind(12)]
    fn c03_te_batch1_complete() { te_batch::<TeC, 0>(false); te_batch::<TeC, 1>(false) }
    /// thorough required timeout=2400 | SW a=0 over the REAL Montgomery base field F_13 (derive): Projective + for ALL ordered pairs, ALL rescalings
    #[unwind(12)]
    fn c03_sw_add_a0_mont() { sw_add::<SwA0Mont>() }
    /// quick required | TE complete (a square, d non-square; order 20, cofactor 4) over F_13: +, +=, mixed +, - for ALL ordered pairs of points of the WHOLE curve, ALL rescalings
    #[unwind(12)]
    fn c03_te_add_complete() { te_add::<TeC>(false) }
    /// thorough required timeout=2400 | TE complete cofactor 8 over F_17: +, +=, mixed +, -: ALL ordered pairs of the whole curve, ALL rescalings
    #[unwind(12)]
    fn c03_te_add_cof8() { te_add::<TeC8>(false) }
    /// quick required | TE with incomplete law (d square) over F_17: +, +=, mixed +, - for ALL ordered pairs of the prime-order subgroup, ALL rescalings
    #[unwind(12)]
    fn c03_te_add_incomplete_subgroup() { te_add::<TeInc>(true) }
    /// quick required | TE complete: double, neg, into_affine, From<Affine>, Affine + Affine, equality independent of representative, is_on_curve: ALL pairs, ALL rescalings
    #[unwind(12)]
    fn c03_te_misc_complete() { te_misc::<TeC>(false) }
    /// thorough required | TE complete cofactor 8: double, neg, conversions, equality: ALL pairs
    #[unwind(12)]
    fn c03_te_misc_cof8() { te_misc::<TeC8>(false) }
    /// thorough attempt timeout=3000 | TE complete: normalize_batch and Sum over ALL vectors of 0, 1, 2 points
    #[unwind(12)]
    fn c03_te_batch_complete() { te_batch::<TeC, 0>(false); te_batch::<TeC, 1>(false); te_batch::<TeC, 2>(false) }
}

// ---- a short-Weierstrass curve with a = 0 over a CUBIC extension base field (F_7^3): doubling takes the slow path that is
// ---- only used for base fields of extension degree >= 3 --------------------------------------------------------------------
pub mod ext3 {
    use crate::c02_towers::{Conv, O7_3, OF, OP};
    use crate::fields::DF19;
    use crate::sym::{any, assume};
    use crate::towers::F7_3;
    use ark_ec::{models::CurveConfig, short_weierstrass::{self as sw, SWCurveConfig}, AffineRepr, CurveGroup};
    use ark_ff::{AdditiveGroup, BigInt, Fp, Fp3, Zero};
    use core::marker::PhantomData;

    /// y^2 = x^3 + u over F_343 = F_7[u]/(u^3 - 2).  Only the curve equation matters for the harness (group order / generator are
    /// not used: the scalar field and cofactor are placeholders, no scalar multiplication is performed).
    #[derive(Clone, Copy, Default, PartialEq, Eq, Debug)]
    pub struct SwExt3;
    const fn f(v: u64) -> crate::plain::PF7 {
        Fp(BigInt([v]), PhantomData)
    }
    impl CurveConfig for SwExt3 {
        type BaseField = F7_3;
        type ScalarField = DF19;
        const COFACTOR: &'static [u64] = &[1];
        const COFACTOR_INV: DF19 = <DF19>::new(BigInt::new([1]));
    }
    impl SWCurveConfig for SwExt3 {
        const COEFF_A: F7_3 = Fp3::<crate::towers::T7Fp3>::new(f(0), f(0), f(0));
        const COEFF_B: F7_3 = Fp3::<crate::towers::T7Fp3>::new(f(0), f(1), f(0));
        // (placeholder, never used by the harness)
        const GENERATOR: sw::Affine<Self> = sw::Affine::new_unchecked(Fp3::<crate::towers::T7Fp3>::new(f(0), f(0), f(0)), Fp3::<crate::towers::T7Fp3>::new(f(0), f(0), f(0)));
    }
    fn b_coeff() -> O7_3 {
        crate::c02_towers::OE([OP(0), OP(1), OP(0)], PhantomData)
    }
    /// doubling and P + P of ALL affine points (x, y) with y != 0 on the curve, with ALL Jacobian rescalings by a base-prime-field
    /// scalar z: compared with the textbook tangent formula in the oracle tower (lambda = 3x^2 / 2y; inverse by Fermat)
    pub fn double_all() {
        let (x, y) = (O7_3::any(), O7_3::any());
        let on_curve = y.mul(y) == x.mul(x).mul(x).add(b_coeff());
        assume(on_curve && !y.is_zero());
        let z: u32 = any();
        let z = z & 7;
        assume(z >= 1 && z < 7);
        let zo: O7_3 = crate::c02_towers::OE([OP(z), OP(0), OP(0)], PhantomData);
        let z2 = zo.mul(zo);
        let p = sw::Projective::<SwExt3>::new_unchecked(F7_3::from_o(&x.mul(z2)), F7_3::from_o(&y.mul(z2).mul(zo)), F7_3::from_o(&zo));
        let three = crate::c02_towers::OE([OP(3), OP(0), OP(0)], PhantomData);
        let two = crate::c02_towers::OE([OP(2), OP(0), OP(0)], PhantomData);
        let lam = three.mul(x).mul(x).mul(two.mul(y).pow(341));
        let x3 = lam.mul(lam).sub(x).sub(x);
        let y3 = lam.mul(x.sub(x3)).sub(y);
        let d = p.double();
        let s = p + p;
        crate::cover!(z > 1 && !x.is_zero());
        // Jacobian (X, Y, Z) denotes (X/Z^2, Y/Z^3)
        let is = |r: &sw::Projective<SwExt3>| {
            let (rx, ry, rz) = (r.x.to_o(), r.y.to_o(), r.z.to_o());
            let rz2 = rz.mul(rz);
            !rz.is_zero() && rx == x3.mul(rz2) && ry == y3.mul(rz2).mul(rz)
        };
        let ok = is(&d) && is(&s);
        assert!(ok);
    }
}

crate::harnesses! { REGEXT;
    /// thorough required timeout=3000 mem=30 | SW y^2 = x^3 + u over the CUBIC extension F_7^3 (a = 0: the doubling slow path used only for base fields of extension degree >= 3): double() and P + P for ALL affine points with y != 0 and ALL rescalings vs the textbook tangent formula in an independent oracle tower
    #[unwind(12)]
    fn c03_sw_double_ext3() { ext3::double_all() }
}
