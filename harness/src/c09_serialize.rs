//! C09 — serialization round-trips at the advertised size; field encodings are unique.
use crate::c03_curves::*;
use crate::fields::*;
use crate::plain::*;
use crate::sym::{any, assume};
use crate::towers::*;
use crate::toy_curves::*;
use ark_ff::{Fp2, Fp3};
use ark_ec::{
    short_weierstrass::{self as sw, SWCurveConfig, SWFlags},
    twisted_edwards::{self as te, TECurveConfig, TEFlags},
    AffineRepr, CurveGroup,
};
use ark_serialize::{
    CanonicalDeserialize, CanonicalDeserializeWithFlags, CanonicalSerialize, CanonicalSerializeWithFlags, Compress, EmptyFlags, Flags,
    Validate,
};

pub fn any_mode() -> (Compress, Validate) {
    (if any::<bool>() { Compress::Yes } else { Compress::No }, if any::<bool>() { Validate::Yes } else { Validate::No })
}

/// ALL x and one flag value: serialize_with_flags writes exactly serialized_size_with_flags bytes and deserializes to (x, flag)
fn field_flag_roundtrip<F: Tiny + CanonicalSerializeWithFlags + CanonicalDeserializeWithFlags, FL: Flags + PartialEq, const CAP: usize>(flag: FL) -> bool {
    let x = F::any();
    let mut buf = [0u8; CAP];
    let mut w: &mut [u8] = &mut buf[..];
    if x.serialize_with_flags(&mut w, flag).is_err() {
        return false;
    }
    let written = CAP - w.len();
    let size = x.serialized_size_with_flags::<FL>();
    let want_size = (F::BITS as usize + FL::BIT_SIZE + 7) / 8;
    let back = F::deserialize_with_flags::<_, FL>(&buf[..written]);
    let mut ok = written == size && size == want_size;
    ok &= match back {
        Ok((y, f)) => y == x && f == flag,
        Err(_) => false,
    };
    // the integer part is the little-endian canonical value
    let mut v: u64 = 0;
    let mut i = 0;
    while i < written && i < 8 {
        v |= (buf[i] as u64) << (8 * i);
        i += 1;
    }
    let fmask = (flag.u8_bitmask() as u64) << (8 * (written - 1));
    ok && (v & !fmask) == x.val() as u64 && (v & fmask) == fmask
}
fn field_roundtrip<F: Tiny + CanonicalSerializeWithFlags + CanonicalDeserializeWithFlags, const CAP: usize>() {
    let x = F::any();
    let (c, v) = any_mode();
    let mut buf = [0u8; CAP];
    let mut w: &mut [u8] = &mut buf[..];
    let r = x.serialize_with_mode(&mut w, c);
    let written = CAP - w.len();
    let back = F::deserialize_with_mode(&buf[..written], c, v);
    crate::cover!(x.val() == F::P - 1);
    let mut ok = r.is_ok() && written == x.serialized_size(c) && written == (F::BITS as usize + 7) / 8 && matches!(back, Ok(y) if y == x);
    ok &= field_flag_roundtrip::<F, EmptyFlags, CAP>(EmptyFlags);
    ok &= field_flag_roundtrip::<F, SWFlags, CAP>(SWFlags::YIsPositive) && field_flag_roundtrip::<F, SWFlags, CAP>(SWFlags::YIsNegative) && field_flag_roundtrip::<F, SWFlags, CAP>(SWFlags::PointAtInfinity);
    ok &= field_flag_roundtrip::<F, TEFlags, CAP>(TEFlags::XIsPositive) && field_flag_roundtrip::<F, TEFlags, CAP>(TEFlags::XIsNegative);
    assert!(ok);
}
/// uniqueness: EVERY byte string of the advertised length that deserializes re-serializes to exactly the same bytes
fn field_unique<F: Tiny + CanonicalSerializeWithFlags + CanonicalDeserializeWithFlags, FL: Flags, const LEN: usize>() {
    let bytes: [u8; LEN] = any();
    let r = F::deserialize_with_flags::<_, FL>(&bytes[..]);
    crate::cover!(r.is_ok() && bytes[LEN - 1] != 0);
    crate::cover!(r.is_err());
    let ok = match r {
        Ok((x, f)) => {
            let mut out = [0u8; LEN];
            let mut w: &mut [u8] = &mut out[..];
            x.limb() < F::P as u64 && x.serialize_with_flags(&mut w, f).is_ok() && w.is_empty() && out == bytes
        },
        Err(_) => true,
    };
    assert!(ok);
}

// ---- extension fields: K coordinates over a one-limb prime field ---------------------------------------------------
/// one flag value: bytes written == serialized_size_with_flags == (K-1) plain coordinates + one flagged coordinate; the bytes are the
/// coordinates in order c0, c1, .. (little endian each) with the flag bits in the top bits of the LAST byte; deserializes to (x, flag)
fn ext_flag_roundtrip<E, F: Tiny, FL: Flags + PartialEq, const K: usize, const CAP: usize>(x: &E, cs: &[F; K], flag: FL) -> bool
where
    E: CanonicalSerializeWithFlags + CanonicalDeserializeWithFlags + PartialEq,
{
    let mut buf = [0u8; CAP];
    let mut w: &mut [u8] = &mut buf[..];
    if x.serialize_with_flags(&mut w, flag).is_err() {
        return false;
    }
    let written = CAP - w.len();
    let fb = (F::BITS as usize + 7) / 8;
    let want = fb * (K - 1) + (F::BITS as usize + FL::BIT_SIZE + 7) / 8;
    let mut ok = written == want && x.serialized_size_with_flags::<FL>() == want;
    ok &= match E::deserialize_with_flags::<_, FL>(&buf[..written]) {
        Ok((y, f)) => y == *x && f == flag,
        Err(_) => false,
    };
    let mut k = 0;
    while k < K {
        let end = if k + 1 == K { written } else { (k + 1) * fb };
        let mut v: u64 = 0;
        let mut i = k * fb;
        while i < end && i < CAP {
            v |= (buf[i] as u64) << (8 * (i - k * fb));
            i += 1;
        }
        let fmask = if k + 1 == K { (flag.u8_bitmask() as u64) << (8 * (written - 1 - k * fb)) } else { 0 };
        ok &= (v & !fmask) == cs[k].val() as u64 && (v & fmask) == fmask;
        k += 1;
    }
    ok
}
/// ALL elements x 4 modes x every flag value
fn ext_roundtrip<E, F: Tiny, const K: usize, const CAP: usize>(mk: fn(&[F; K]) -> E)
where
    E: CanonicalSerializeWithFlags + CanonicalDeserializeWithFlags + CanonicalSerialize + CanonicalDeserialize + PartialEq,
{
    let cs: [F; K] = core::array::from_fn(|_| F::any());
    let x = mk(&cs);
    let (c, v) = any_mode();
    let mut buf = [0u8; CAP];
    let mut w: &mut [u8] = &mut buf[..];
    let r = x.serialize_with_mode(&mut w, c);
    let written = CAP - w.len();
    let back = E::deserialize_with_mode(&buf[..written], c, v);
    crate::cover!(cs[K - 1].val() == F::P - 1 && cs[0].val() == 0);
    let mut ok = r.is_ok() && written == x.serialized_size(c) && written == K * ((F::BITS as usize + 7) / 8) && matches!(back, Ok(y) if y == x);
    ok &= ext_flag_roundtrip::<E, F, EmptyFlags, K, CAP>(&x, &cs, EmptyFlags);
    ok &= ext_flag_roundtrip::<E, F, SWFlags, K, CAP>(&x, &cs, SWFlags::YIsPositive)
        && ext_flag_roundtrip::<E, F, SWFlags, K, CAP>(&x, &cs, SWFlags::YIsNegative)
        && ext_flag_roundtrip::<E, F, SWFlags, K, CAP>(&x, &cs, SWFlags::PointAtInfinity);
    ok &= ext_flag_roundtrip::<E, F, TEFlags, K, CAP>(&x, &cs, TEFlags::XIsPositive) && ext_flag_roundtrip::<E, F, TEFlags, K, CAP>(&x, &cs, TEFlags::XIsNegative);
    assert!(ok);
}
/// uniqueness: EVERY byte string of the advertised length that deserializes re-serializes to exactly the same bytes
fn ext_unique<E, FL: Flags, const LEN: usize>()
where
    E: CanonicalSerializeWithFlags + CanonicalDeserializeWithFlags,
{
    let bytes: [u8; LEN] = any();
    let r = E::deserialize_with_flags::<_, FL>(&bytes[..]);
    crate::cover!(r.is_ok() && bytes[LEN - 1] != 0);
    crate::cover!(r.is_err());
    let ok = match r {
        Ok((x, f)) => {
            let mut out = [0u8; LEN];
            let mut w: &mut [u8] = &mut out[..];
            x.serialize_with_flags(&mut w, f).is_ok() && w.is_empty() && out == bytes
        },
        Err(_) => true,
    };
    assert!(ok);
}

/// ALL points x 4 modes, AFFINE only (one serialization, one deserialization per query)
fn sw_affine_roundtrip<C: SWCurveConfig + Toy, const CAP: usize>(subgroup_only: bool)
where
    C::BaseField: Tiny,
{
    sw_affine_roundtrip_r::<C, CAP>(if subgroup_only { 1 } else { 0 })
}
/// restrict: 0 = all points, 1 = subgroup points only, 2 = subgroup points when the mode validates, all points otherwise
fn sw_affine_roundtrip_r<C: SWCurveConfig + Toy, const CAP: usize>(restrict: u8)
where
    C::BaseField: Tiny,
{
    let i = any_index::<C>();
    let (c, v) = any_mode();
    assume(restrict == 0 || C::T.insub[i] || (restrict == 2 && matches!(v, Validate::No)));
    let a = sw_affine::<C>(i);
    let mut b1 = [0u8; CAP];
    let mut w1: &mut [u8] = &mut b1[..];
    let r1 = a.serialize_with_mode(&mut w1, c);
    let n1 = CAP - w1.len();
    let fbytes = (<C::BaseField as Tiny>::BITS as usize + 2 + 7) / 8;
    let xbytes = (<C::BaseField as Tiny>::BITS as usize + 7) / 8;
    let want = match c {
        Compress::Yes => fbytes,
        Compress::No => xbytes + fbytes,
    };
    let back_a = sw::Affine::<C>::deserialize_with_mode(&b1[..n1], c, v);
    crate::cover!(i == 0);
    crate::cover!(i != 0 && C::T.pts[i].1 == 0);
    crate::cover!(i != 0 && C::T.pts[i].1 > C::T.p / 2);
    let ok = r1.is_ok() && n1 == want && a.serialized_size(c) == want && matches!(back_a, Ok(q) if sw_aff_is(&q, i));
    assert!(ok);
}
/// projective points (ALL rescalings) serialize to the same bytes as their affine form, at the advertised size
fn sw_proj_bytes<C: SWCurveConfig + Toy, const CAP: usize>()
where
    C::BaseField: Tiny,
{
    let i = any_index::<C>();
    let c = if any::<bool>() { Compress::Yes } else { Compress::No };
    let a = sw_affine::<C>(i);
    let p = sw_proj::<C>(i, any_nz(C::T.p));
    let mut b1 = [0u8; CAP];
    let mut b2 = [0u8; CAP];
    let mut w1: &mut [u8] = &mut b1[..];
    let mut w2: &mut [u8] = &mut b2[..];
    let r1 = a.serialize_with_mode(&mut w1, c);
    let r2 = p.serialize_with_mode(&mut w2, c);
    let (n1, n2) = (CAP - w1.len(), CAP - w2.len());
    crate::cover!(i != 0);
    let ok = r1.is_ok() && r2.is_ok() && n1 == n2 && b1 == b2 && p.serialized_size(c) == n2;
    assert!(ok);
}
/// ALL points x 4 modes: affine and projective serialize to exactly serialized_size bytes and deserialize to the same point
fn sw_point_roundtrip<C: SWCurveConfig + Toy, const CAP: usize>(subgroup_only: bool)
where
    C::BaseField: Tiny,
{
    let i = any_index::<C>();
    assume(!subgroup_only || C::T.insub[i]);
    let (c, v) = any_mode();
    let a = sw_affine::<C>(i);
    let p = sw_proj::<C>(i, any_nz(C::T.p));
    let mut b1 = [0u8; CAP];
    let mut b2 = [0u8; CAP];
    let mut w1: &mut [u8] = &mut b1[..];
    let mut w2: &mut [u8] = &mut b2[..];
    let r1 = a.serialize_with_mode(&mut w1, c);
    let r2 = p.serialize_with_mode(&mut w2, c);
    let (n1, n2) = (CAP - w1.len(), CAP - w2.len());
    let fbytes = (<C::BaseField as Tiny>::BITS as usize + 2 + 7) / 8;
    let xbytes = (<C::BaseField as Tiny>::BITS as usize + 7) / 8;
    let want = match c {
        Compress::Yes => fbytes,
        Compress::No => xbytes + fbytes,
    };
    let back_a = sw::Affine::<C>::deserialize_with_mode(&b1[..n1], c, v);
    let back_p = sw::Projective::<C>::deserialize_with_mode(&b2[..n2], c, v);
    crate::cover!(i == 0);
    crate::cover!(i != 0 && C::T.pts[i].1 == 0);
    crate::cover!(i != 0 && C::T.pts[i].1 > C::T.p / 2);
    let mut ok = r1.is_ok() && r2.is_ok() && n1 == want && n2 == want && a.serialized_size(c) == want && p.serialized_size(c) == want && b1 == b2;
    ok &= matches!(back_a, Ok(q) if sw_aff_is(&q, i)) && matches!(back_p, Ok(q) if sw_is(&q, i));
    assert!(ok);
}
fn te_affine_roundtrip<C: TECurveConfig + Toy, const CAP: usize>(subgroup_only: bool)
where
    C::BaseField: Tiny,
{
    let i = any_index::<C>();
    assume(!subgroup_only || C::T.insub[i]);
    let (c, v) = any_mode();
    let a = te_affine::<C>(i);
    let mut b1 = [0u8; CAP];
    let mut w1: &mut [u8] = &mut b1[..];
    let r1 = a.serialize_with_mode(&mut w1, c);
    let n1 = CAP - w1.len();
    let fbytes = (<C::BaseField as Tiny>::BITS as usize + 1 + 7) / 8;
    let xbytes = (<C::BaseField as Tiny>::BITS as usize + 7) / 8;
    let want = match c {
        Compress::Yes => fbytes,
        Compress::No => 2 * xbytes,
    };
    let back_a = te::Affine::<C>::deserialize_with_mode(&b1[..n1], c, v);
    crate::cover!(i == 0);
    crate::cover!(C::T.pts[i].0 == 0 && i != 0);
    crate::cover!(C::T.pts[i].0 > C::T.p / 2);
    let ok = r1.is_ok() && n1 == want && a.serialized_size(c) == want && matches!(back_a, Ok(q) if q == a);
    assert!(ok);
}
fn te_point_roundtrip<C: TECurveConfig + Toy, const CAP: usize>(subgroup_only: bool)
where
    C::BaseField: Tiny,
{
    let i = any_index::<C>();
    assume(!subgroup_only || C::T.insub[i]);
    let (c, v) = any_mode();
    let a = te_affine::<C>(i);
    let p = te_proj::<C>(i, any_nz(C::T.p));
    let mut b1 = [0u8; CAP];
    let mut b2 = [0u8; CAP];
    let mut w1: &mut [u8] = &mut b1[..];
    let mut w2: &mut [u8] = &mut b2[..];
    let r1 = a.serialize_with_mode(&mut w1, c);
    let r2 = p.serialize_with_mode(&mut w2, c);
    let (n1, n2) = (CAP - w1.len(), CAP - w2.len());
    let fbytes = (<C::BaseField as Tiny>::BITS as usize + 1 + 7) / 8;
    let xbytes = (<C::BaseField as Tiny>::BITS as usize + 7) / 8;
    let want = match c {
        Compress::Yes => fbytes,
        Compress::No => 2 * xbytes,
    };
    let back_a = te::Affine::<C>::deserialize_with_mode(&b1[..n1], c, v);
    let back_p = te::Projective::<C>::deserialize_with_mode(&b2[..n2], c, v);
    crate::cover!(i == 0);
    crate::cover!(C::T.pts[i].0 == 0 && i != 0);
    crate::cover!(C::T.pts[i].0 > C::T.p / 2);
    let mut ok = r1.is_ok() && r2.is_ok() && n1 == want && n2 == want && a.serialized_size(c) == want && p.serialized_size(c) == want && b1 == b2;
    ok &= matches!(back_a, Ok(q) if q == a) && matches!(back_p, Ok(q) if te_is(&q, i));
    assert!(ok);
}

crate::harnesses! { REG;
    /// quick required | F_13 (4 bits, Montgomery derive): ALL x, all 4 modes and every flag type (EmptyFlags, SWFlags x3, TEFlags x2): round trip, bytes written == advertised size == ceil((bits+flag bits)/8), integer part little-endian canonical, flag bits in the top bits
    #[unwind(12)]
    fn c09_field_rt_f13() { field_roundtrip::<DF13, 2>() }
    /// quick required | F_127 (7 bits: 1 spare bit; SW flags spill into an extra byte), hand-written config: ALL x, all modes and flags
    #[unwind(12)]
    fn c09_field_rt_f127() { field_roundtrip::<HF127, 3>() }
    /// quick required | F_251 (8 bits: no spare bit, every flag needs an extra byte): ALL x, all modes and flags
    #[unwind(12)]
    fn c09_field_rt_f251() { field_roundtrip::<DF251, 3>() }
    /// thorough required timeout=2400 | F_65521 (16 bits: two full bytes, flags in a third): ALL x, all modes and flags
    #[unwind(12)]
    fn c09_field_rt_f65521() { field_roundtrip::<DF65521, 4>() }
    /// thorough required | F_3 (2 bits), F_31 (5 bits), F_257 (9 bits), F_65537 (17 bits): ALL x, all modes and flags
    #[unwind(12)]
    fn c09_field_rt_more() { field_roundtrip::<DF3, 2>(); field_roundtrip::<DF31, 2>(); field_roundtrip::<DF257, 3>(); field_roundtrip::<DF65537, 4>() }
    /// quick required | uniqueness F_13: EVERY 1-byte string: if it deserializes (no flags / SW flags / TE flags) it re-serializes to the same byte (non-reduced integers and stray bits rejected)
    #[unwind(12)]
    fn c09_field_unique_f13() { field_unique::<DF13, EmptyFlags, 1>(); field_unique::<DF13, SWFlags, 1>(); field_unique::<DF13, TEFlags, 1>() }
    /// quick required | uniqueness F_127: EVERY string of the advertised length (1 byte without flags / TE flag, 2 bytes with SW flags)
    #[unwind(12)]
    fn c09_field_unique_f127() { field_unique::<DF127, EmptyFlags, 1>(); field_unique::<DF127, TEFlags, 1>(); field_unique::<DF127, SWFlags, 2>() }
    /// quick required | uniqueness F_251 (hand-written config): EVERY 1-byte string without flags, EVERY 2-byte string with SW / TE flags
    #[unwind(12)]
    fn c09_field_unique_f251() { field_unique::<HF251, EmptyFlags, 1>(); field_unique::<HF251, SWFlags, 2>(); field_unique::<HF251, TEFlags, 2>() }
    /// quick required | Fp2 over F_241 (8-bit base field: flags need an extra byte after the LAST coordinate only): ALL elements, 4 modes, every flag value: round trip, bytes written == advertised size == 2 (+1 with flags), coordinate layout c0, c1 with the flags in the top bits of the last byte
    #[unwind(12)]
    fn c09_fp2_f241() { ext_roundtrip::<S241_2, DF241, 2, 4>(|c| Fp2::new(c[0], c[1])) }
    /// quick required | Fp3 over F_241: ALL elements, 4 modes, every flag value: size 3 (+1 with flags), layout c0, c1, c2 + flags
    #[unwind(12)]
    fn c09_fp3_f241() { ext_roundtrip::<S241_3, DF241, 3, 5>(|c| Fp3::new(c[0], c[1], c[2])) }
    /// quick required | Fp2 over F_13 (flags share the last coordinate's byte) and Fp3 over F_7: ALL elements, 4 modes, every flag value
    #[unwind(12)]
    fn c09_fp2_fp3_small() { ext_roundtrip::<M13_2, DF13, 2, 4>(|c| Fp2::new(c[0], c[1])); ext_roundtrip::<F7_3, PF7, 3, 5>(|c| Fp3::new(c[0], c[1], c[2])) }
    /// quick required | uniqueness Fp2 over F_241: EVERY 2-byte string without flags and EVERY 3-byte string with SW flags re-serializes to itself or is rejected (non-reduced coordinates, stray flag bits)
    #[unwind(12)]
    fn c09_fp2_unique_f241() { ext_unique::<S241_2, EmptyFlags, 2>(); ext_unique::<S241_2, SWFlags, 3>() }
    /// thorough required | uniqueness Fp3 over F_241: EVERY 3-byte string without flags, EVERY 4-byte string with SW / TE flags
    #[unwind(12)]
    fn c09_fp3_unique_f241() { ext_unique::<S241_3, EmptyFlags, 3>(); ext_unique::<S241_3, SWFlags, 4>(); ext_unique::<S241_3, TEFlags, 4>() }
    /// thorough required timeout=2400 | uniqueness F_65521: EVERY 2-byte string without flags, EVERY 3-byte string with SW flags
    #[unwind(12)]
    fn c09_field_unique_f65521() { field_unique::<DF65521, EmptyFlags, 2>(); field_unique::<DF65521, SWFlags, 3>() }
    /// thorough required | uniqueness F_257 (9 bits) and F_65537 (17 bits): EVERY string of the advertised length, all flag types
    #[unwind(12)]
    fn c09_field_unique_more() { field_unique::<DF257, EmptyFlags, 2>(); field_unique::<DF257, SWFlags, 2>(); field_unique::<DF65537, EmptyFlags, 3>(); field_unique::<DF65537, TEFlags, 3>() }

    /// thorough required timeout=2400 unwindset=sw_double_and_add:5,>::pow:6,SqrtPrecomputation:7 | SW cofactor 4 over F_13: ALL points of the prime-order subgroup (identity included) x 4 modes, affine and projective (ALL rescalings): round trip, bytes written == serialized_size == advertised size
    #[unwind(70)]
    fn c09_sw_points_cof4() { sw_point_roundtrip::<SwCof4, 3>(true) }
    /// quick required unwindset=sw_double_and_add:5,>::pow:6,SqrtPrecomputation:7 | SW a=0 (cofactor 1, order 19): ALL affine points (identity, both signs of y) x 4 modes: round trip, bytes written == serialized_size == advertised size
    #[unwind(70)]
    fn c09_sw_affine_a0() { sw_affine_roundtrip::<SwA0, 3>(false) }
    /// quick required unwindset=sw_double_and_add:5,>::pow:6,SqrtPrecomputation:7 | SW cofactor 4: ALL affine points of the prime-order subgroup x 4 modes (y = 0 point excluded by the subgroup; identity included)
    #[unwind(70)]
    fn c09_sw_affine_cof4() { sw_affine_roundtrip::<SwCof4, 3>(true) }
    /// quick required | SW cofactor 4: ALL points in ALL Jacobian rescalings serialize (both compression modes) to the same bytes as their affine form, at the advertised size
    #[unwind(20)]
    fn c09_sw_proj_bytes() { sw_proj_bytes::<SwCof4, 3>() }
    /// quick required | SW b = 0: ALL points (the order-two point (0, 0) and the identity included) in ALL rescalings serialize to the same bytes as their affine form, at the advertised size
    #[unwind(20)]
    fn c09_sw_proj_bytes_b0() { sw_proj_bytes::<SwB0, 3>() }
    /// quick required unwindset=sw_double_and_add:5,>::pow:6,SqrtPrecomputation:7 | SW b = 0 (cofactor 4): ALL affine points x 4 modes (unchecked modes for points outside the subgroup): round trip distinguishes (0, 0) from the identity
    #[unwind(70)]
    fn c09_sw_affine_b0() { sw_affine_roundtrip_r::<SwB0, 3>(2) }
    /// thorough required timeout=3000 unwindset=sw_double_and_add:5,>::pow:6,SqrtPrecomputation:7 | SW a=0: ALL points x 4 modes, affine and projective serialization and deserialization in one query
    #[unwind(70)]
    fn c09_sw_points_a0() { sw_point_roundtrip::<SwA0, 3>(false) }
    /// quick required unwindset=TECurveConfig>::mul_:5,>::pow:6,SqrtPrecomputation:7 | TE complete cofactor 4 over F_13: ALL affine subgroup points x 4 modes; x = 0 sign edge case included
    #[unwind(70)]
    fn c09_te_affine_complete() { te_affine_roundtrip::<TeC, 3>(true) }
    /// thorough required timeout=3000 unwindset=TECurveConfig>::mul_:5,>::pow:6,SqrtPrecomputation:7 | TE complete: ALL subgroup points x 4 modes, affine and projective in one query
    #[unwind(70)]
    fn c09_te_points_complete() { te_point_roundtrip::<TeC, 3>(true) }
    /// thorough required unwindset=sw_double_and_add:5,>::pow:6,SqrtPrecomputation:7,TECurveConfig>::mul_:5,>::pow:6,SqrtPrecomputation:7 | SW a != 0 (order 17) and TE cofactor 8 over F_17: ALL (subgroup) points x 4 modes
    #[unwind(70)]
    fn c09_points_more() { sw_point_roundtrip::<SwA, 3>(false); te_point_roundtrip::<TeC8, 3>(true) }
}
