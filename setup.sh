#!/bin/bash
# setup_cmd: build the shadow KANI_HOME (see DESIGN.md §2.1) and make sure the harness crate resolves offline.
set -e
cd "$(dirname "$0")"
V="$(pwd)"
REAL=${KANI_REAL_HOME:-/root/.kani}/kani-0.68.0
SH=$V/.kani-home/kani-0.68.0
rm -rf "$V/.kani-home"
mkdir -p "$SH/bin"
for e in "$REAL"/*; do
  b=$(basename "$e")
  [ "$b" = bin ] || ln -s "$e" "$SH/$b"
done
for e in "$REAL"/bin/*; do
  b=$(basename "$e")
  case "$b" in
    kani-driver) cp "$e" "$SH/bin/$b" ;;
    goto-instrument) ;;
    *) ln -s "$e" "$SH/bin/$b" ;;
  esac
done
cat > "$SH/bin/goto-instrument" <<EOW
#!/bin/bash
# wrapper: the loop-normalisation pass OOMs on ark-ff's unrolled loops and is not needed with unwinding assertions on
if [ "\$1" = "--ensure-one-backedge-per-target" ]; then
  [ "\$2" = "\$3" ] || cp "\$2" "\$3"
  exit 0
fi
exec $REAL/bin/goto-instrument "\$@"
EOW
chmod +x "$SH/bin/goto-instrument"
mkdir -p "$V/.build" "$V/evidence" "$V/replays"
cp /repo/Cargo.lock "$V/harness/Cargo.lock" 2>/dev/null || true
echo "setup ok"
