#!/usr/bin/env python3
"""Native smoke run of harness functions on random small tapes (NOT a check: only to debug harness/oracle code cheaply before the
solver runs).  usage: native_smoke.py <PID> [trials] [only-regex]"""
import json, os, random, re, subprocess, sys
sys.path.insert(0, os.path.dirname(os.path.abspath(__file__)))
import driver
pid = sys.argv[1].upper(); trials = int(sys.argv[2]) if len(sys.argv) > 2 else 20
only = sys.argv[3] if len(sys.argv) > 3 else None
hs = [h for h in driver.parse_harnesses(pid) if not only or re.search(only, h['name'])]
subprocess.run(['cargo', 'build', '--offline', '-q', '--features', f'std,{pid.lower()}', '--bin', 'replay', '--target-dir', f'{driver.BUILD}/native'],
               cwd=f'{driver.ROOT}/harness', check=True)
exe = f'{driver.BUILD}/native/debug/replay'
rnd = random.Random(1)
for h in hs:
    res = dict(ok=0, outside=0, fail=0)
    first_fail = None
    for t in range(trials):
        small = rnd.choice([2, 5, 13, 17, 256])
        vals = [[rnd.randrange(small)] + [0] * 7 for _ in range(200)]
        json.dump(dict(property=pid, harness=h['name'], values=vals), open('/tmp/smoke.json', 'w'))
        p = subprocess.run([exe, h['name'], '/tmp/smoke.json'], stdout=subprocess.PIPE, stderr=subprocess.STDOUT, text=True, env=dict(os.environ, VERIF_DBG='1'))
        if 'REPLAY-OK' in p.stdout: res['ok'] += 1
        elif 'OUTSIDE-ASSUMPTION' in p.stdout: res['outside'] += 1
        else:
            res['fail'] += 1
            if first_fail is None:
                first_fail = [l for l in p.stdout.splitlines() if 'panicked' in l or 'assertion' in l or l.startswith('DBG')][:4]
    print(f"{h['name']:<40} {res} {first_fail or ''}")
