#!/usr/bin/env python3
"""Print the DESIGN.md section 9 table (seeded changes and which checks catch them) from seeded/*/meta.json."""
import glob, json, os
ROOT = os.path.dirname(os.path.dirname(os.path.abspath(__file__)))
rows = []
for f in sorted(glob.glob(f'{ROOT}/seeded/*/meta.json')):
    m = json.load(open(f))
    d = m.get('detection', {})
    if 'check_exit' in d:
        if d['check_exit'] == 1:
            det = 'CAUGHT (quick): ' + ', '.join(d.get('harnesses', [])[:3])
        elif d['check_exit'] == 0:
            det = 'missed by the quick tier'
        else:
            det = f"inconclusive (exit {d['check_exit']})"
    else:
        det = d.get('note', 'not tried')
    if m.get('detection_notes'):
        det += ' — ' + m['detection_notes']
    rows.append((m['change_id'], ', '.join(m['files_changed']), det))
print('| change | file changed | result of `./check <property>` with the change applied |')
print('|---|---|---|')
for r in rows:
    print(f'| {r[0]} | `{r[1]}` | {r[2]} |')
