#!/usr/bin/env python3
"""Assemble /verif/seeded/<change-id>/ from the sub-agent deliveries (/tmp/seedout), my confirmation runs (/tmp/confirm/summary.txt)
and my detection trials (/tmp/try/summary.txt).  Only changes whose confirmation succeeded are kept."""
import json, os, re, shutil
ROOT = os.path.dirname(os.path.dirname(os.path.abspath(__file__)))
conf = {}
for l in open('/tmp/confirm/summary.txt'):
    m = re.search(r'id=(\w+) k=(\w+) demo_pristine_rc=(\d+) apply_rc=(\d+) demo_patched_rc=(\d+) suite_unexpected_failures=(\w+) summary=\[(.*)\]', l)
    if m:
        conf[(m.group(1), m.group(2))] = dict(demo_pristine_rc=int(m.group(3)), apply_rc=int(m.group(4)), demo_patched_rc=int(m.group(5)),
                                                   suite_unexpected_failures=m.group(6), suite_summary=m.group(7).strip())
tries = {}
if os.path.exists('/tmp/try/summary.txt'):
    for l in open('/tmp/try/summary.txt'):
        m = re.match(r'(\w+) m(\w+) exit=(\d+) (\d+) violations; (.*)', l)
        if m:
            hs = re.findall(r'replays/\w+/(\w+?)-[0-9a-f]{10}\.json', m.group(5))
            tries[(m.group(1), m.group(2))] = dict(tier='quick', check_exit=int(m.group(3)), violations=int(m.group(4)), harnesses=sorted(set(hs)))
extra = {}
if os.path.exists(f'{ROOT}/seeded/detection_notes.json'):
    extra = json.load(open(f'{ROOT}/seeded/detection_notes.json'))
kept = []
for (pid, k), c in sorted(conf.items()):
    src = f'/tmp/seedout/{pid}/m{k}'
    ok = c['demo_pristine_rc'] == 0 and c['apply_rc'] == 0 and c['demo_patched_rc'] != 0 and c['suite_unexpected_failures'] == '0'
    if not ok or not os.path.exists(f'{src}/patch.diff'):
        continue
    cid = f'{pid}-m{k}'
    dst = f'{ROOT}/seeded/{cid}'
    os.makedirs(dst, exist_ok=True)
    shutil.copy(f'{src}/patch.diff', f'{dst}/patch.diff')
    shutil.copy(f'{src}/demo.rs', f'{dst}/demo.rs')
    notes = open(f'{src}/notes.md').read() if os.path.exists(f'{src}/notes.md') else ''
    open(f'{dst}/notes.md', 'w').write(notes)
    files = re.findall(r'^\+\+\+ b/(.*)$', open(f'{src}/patch.diff').read(), re.M)
    meta = dict(
        change_id=cid, property=pid, files_changed=files,
        source='independent sub-agent given only the property text and its own scratch worktree',
        needs_to_manifest=' '.join(notes.split())[:900],
        confirmed_by_me=dict(
            how='tools/confirm_mutant.sh in a scratch worktree of /repo HEAD: demo on pristine tree, apply patch, demo again, full pinned nextest suite with the patch',
            demo_on_pristine='pass' if c['demo_pristine_rc'] == 0 else 'fail', demo_with_patch='fail (rc %d)' % c['demo_patched_rc'],
            existing_suite_with_patch=c['suite_summary'] + ' (no unexpected failures)'),
        detection=tries.get((pid, k), dict(tier='quick', note='not tried yet')),
    )
    if cid in extra:
        meta['detection_notes'] = extra[cid]
    json.dump(meta, open(f'{dst}/meta.json', 'w'), indent=1)
    kept.append(cid)
print(len(kept), 'seeded changes kept:', ' '.join(kept))
