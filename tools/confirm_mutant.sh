#!/bin/bash
# confirm_mutant.sh <ID> <k> <dir-with patch.diff/demo.rs> <tests-dir e.g. ff/tests> [suite: full|crates]
# Confirms in a scratch worktree of /repo (HEAD): demo passes on pristine, fails with patch, existing suite passes with patch.
ID=$1; K=$2; SRC=$3; TDIR=$4; SUITE=${5:-full}
WT=/tmp/wt/confirm
LOG=/tmp/confirm/${ID}_m${K}.log
mkdir -p /tmp/confirm
exec > "$LOG" 2>&1
set -x
if [ ! -d $WT ]; then git -C /repo worktree add -q --detach $WT HEAD || exit 9; fi
cd $WT || exit 9
git checkout -q --detach $(git -C /repo rev-parse HEAD)
git checkout -- . ; git clean -fdq -e target -e Cargo.lock
cp /repo/Cargo.lock . 
export CARGO_NET_OFFLINE=true
case $TDIR in
  ff/tests) PKG=ark-ff; FEAT="";;
  ec/tests) PKG=ark-ec; FEAT="";;
  poly/tests) PKG=ark-poly; FEAT="";;
  serialize/tests) PKG=ark-serialize; FEAT="--features derive,std";;
  test-curves/tests) PKG=ark-test-curves; FEAT="--features bls12_381_curve,ed_on_bls12_381,mnt4_753_curve,mnt6_753,bn384_small_two_adicity_curve,secp256k1";;
esac
NAME=demo_${ID,,}_m${K}
mkdir -p $TDIR; cp $SRC/demo.rs $TDIR/$NAME.rs
nice cargo test --offline -j 6 -p $PKG $FEAT --test $NAME; P0=$?
git apply $SRC/patch.diff; AP=$?
nice cargo test --offline -j 6 -p $PKG $FEAT --test $NAME; P1=$?
rm -f $TDIR/$NAME.rs
if [ "$SUITE" = full ]; then
  nice cargo nextest run --workspace --no-fail-fast --offline --test-threads 6 --build-jobs 6 2>&1 | tail -15 > /tmp/confirm/${ID}_m${K}.suite
  S=$(grep -E "^\s+(FAIL|SIGABRT|SIGSEGV|TIMEOUT)" /tmp/confirm/${ID}_m${K}.suite | grep -v "mnt4_753::tests::g1::test_mul_properties" | wc -l)
  SUM=$(grep -E "Summary" /tmp/confirm/${ID}_m${K}.suite)
else
  S=skipped; SUM=skipped
fi
git checkout -- . ; git clean -fdq -e target -e Cargo.lock
set +x
echo "RESULT id=$ID k=$K demo_pristine_rc=$P0 apply_rc=$AP demo_patched_rc=$P1 suite_unexpected_failures=$S summary=[$SUM]" | tee -a /tmp/confirm/summary.txt
