#!/usr/bin/env python3
"""Print the prompt given to an independent mutation sub-agent for one property (only the property text)."""
import json, sys
pid = sys.argv[1]
for l in open('/verif/properties.jsonl'):
    p = json.loads(l)
    if p['id'] == pid:
        break
else:
    sys.exit('no such property')
print(f"""You are testing how well a semantic property of the Rust library arkworks-rs/algebra (finite fields, elliptic curves, polynomials, serialization) is protected. You have your own scratch git worktree of the repository at /tmp/wt/{pid} (a `Cargo.lock` is already copied in; the machine is OFFLINE: always pass `--offline` to cargo, nothing can be downloaded). Work ONLY inside /tmp/wt/{pid} and write your results to /tmp/seedout/{pid}/. Do NOT read or touch /repo, /verif or any other directory. Use `CARGO_TARGET_DIR=/tmp/wt/{pid}/target` (the default inside the worktree) and at most 4 build jobs (`-j 4`), since other work shares this machine.

The property (this is all the context you get):

{json.dumps(p, indent=1)}

Your task: produce up to THREE independent, realistic source changes ("mutants") to the library code (not to tests), each of which
  (a) BREAKS the property above (the library then violates the statement for at least one input / configuration / history),
  (b) still COMPILES, and
  (c) still PASSES the existing test suite (at minimum the tests of every crate you touched and of `ark-test-curves`; run e.g. `cargo test --offline -j 4 -p ark-ff -p ark-ec -p ark-poly -p ark-serialize -p ark-test-curves` as relevant — note `ark-test-curves::mnt4_753::tests::g1::test_mul_properties` already fails on the unmodified tree, ignore that one),
  (d) needs something SPECIFIC to manifest: an unusual/boundary input, a particular configuration shape, a multi-step sequence of operations, or two cooperating sites that each look fine alone. NOT something ordinary use or random testing would expose at once. Think of the kind of slip a maintainer could plausibly make in a refactoring or optimisation (an off-by-one in a carry/limb/bit/window boundary, a dropped carry, a swapped branch for a rare case, a missing special case for identity/zero/equal inputs, a wrong constant used only by a rarely-taken path, a truncated length check, ...).
  Prefer different mechanisms/files of the property for the three mutants. The change should be in generic library code (ff/, ec/, poly/, serialize/, serialize-derive/, ff-macros/) where possible, so that it shows up for small user-defined instantiations as well as for the shipped curves; changes to constants of shipped curve configurations are acceptable only if the property is about those configurations.

For each mutant k = 1,2,3 write into /tmp/seedout/{pid}/m<k>/ :
  - patch.diff   : `git diff` of the change, applicable with `git apply` at the worktree root on the pristine tree
  - demo.rs      : a demonstration: a self-contained Rust integration test file (to be dropped into e.g. `test-curves/tests/` or `ff/tests/` / `poly/tests/` / `serialize/tests/` / `ec/tests/` — say which in notes) that FAILS with the patch applied and PASSES on the pristine tree. It may define its own small field/curve configuration with the public API (e.g. `#[derive(MontConfig)]`).
  - notes.md     : which file/function was changed, why it breaks the property, what specific input/config/sequence is needed to manifest, the exact commands you ran (demo with and without the patch; which test suites pass with the patch) and their outcome.
Verify all of (a)-(d) yourself by actually running the commands: demo passes on pristine, demo fails with patch, existing tests pass with patch. Reset the worktree to pristine (`git checkout -- . && git clean -fd -e target -e Cargo.lock`) between mutants and at the end. If you cannot find three, deliver fewer; quality (subtle, realistic, test-suite-surviving) matters more than count. Finish with a short summary listing the mutants.""")
