#!/usr/bin/env python3
"""Driver for the solver-based checks (see /verif/DESIGN.md §3).

  ./check <ID> [--tier quick|thorough] [--only REGEX] [--jobs N] [--replay PATH]

For one property: regenerate the GOTO programs of its harnesses from /repo's current working tree
(cargo kani --only-codegen on the harness crate, which has path dependencies on /repo), run CBMC on
each harness (engine K: CaDiCaL; engine W: SMT-LIB export decided by cvc5), classify the per-property
results, replay any counterexample natively, and write /verif/evidence/<ID>.json.

Exit codes: 0 = all required obligations discharged (KNOWN-FINDING lines allowed),
            1 = replayed violation not listed in known_findings.json (VIOLATION line printed),
            2 = inconclusive (timeout / out of memory / vacuous / unwinding bound / non-reproducing model).
"""
import argparse, concurrent.futures as cf, glob, hashlib, json, os, re, resource, shutil, subprocess, sys, time

ROOT = os.path.dirname(os.path.dirname(os.path.abspath(__file__)))
BUILD = f'{ROOT}/.build'
# The registered checks always analyse /repo.  For trying seeded changes without touching /repo, VERIF_REPO may name a scratch
# worktree: the harness crate is then mirrored with its path dependencies rewritten, with its own build directory.
REPO = os.path.abspath(os.environ.get('VERIF_REPO', '/repo'))
ALT = '' if REPO == '/repo' else '-alt-' + re.sub(r'[^A-Za-z0-9]', '_', REPO)
HARNESS = f'{ROOT}/harness' if not ALT else f'{BUILD}/harness{ALT}'
KANI_REAL = '/root/.kani/kani-0.68.0'
KANI_SHADOW = f'{ROOT}/.kani-home'
BIN = f'{KANI_REAL}/bin'
CBMC_FLAGS = ['--no-malloc-may-fail', '--no-undefined-shift-check', '--no-signed-overflow-check', '--nan-check',
              '--no-self-loops-to-assumptions', '--no-pointer-primitive-check', '--object-bits', '16']

ANNOT = re.compile(
    r'((?:[ \t]*///[^\n]*\n)+)[ \t]*#\[unwind\((\d+)\)\][ \t]*\n[ \t]*fn[ \t]+(\w+)\(\)', re.M)


def log(*a):
    print(*a, flush=True)


def parse_harnesses(pid):
    """Harness table, parsed from the annotations in harness/src/<pid>_*.rs."""
    out = []
    for f in sorted(glob.glob(f'{ROOT}/harness/src/{pid.lower()}_*.rs')):
        src = open(f).read()
        for m in ANNOT.finditer(src):
            doc = ' '.join(l.strip().lstrip('/').strip() for l in m.group(1).strip().splitlines())
            if '|' not in doc:
                continue
            head, desc = doc.split('|', 1)
            toks = head.split()
            if len(toks) < 2 or toks[0] not in ('quick', 'thorough') or toks[1] not in ('required', 'attempt', 'finding'):
                continue
            opts = dict(t.split('=', 1) for t in toks[2:] if '=' in t)
            out.append(dict(name=m.group(3), tier=toks[0], kind=toks[1], unwind=int(m.group(2)), desc=desc.strip(),
                            opts=opts, file=os.path.relpath(f, ROOT)))
    return out


def kani_env():
    e = dict(os.environ)
    e['KANI_HOME'] = KANI_SHADOW
    e['CARGO_NET_OFFLINE'] = 'true'
    e.pop('RUSTUP_TOOLCHAIN', None)
    return e


def build(pid, names, stubbing=False):
    """Regenerate the GOTO programs from the current source.  Returns {harness name: metadata}."""
    os.makedirs(BUILD, exist_ok=True)
    if ALT:
        subprocess.run(['rsync', '-a', '--delete', '--exclude', 'target', '--exclude', 'Cargo.lock', f'{ROOT}/harness/', HARNESS + '/'], check=True)
        ct = open(f'{HARNESS}/Cargo.toml').read().replace('"/repo/', '"' + REPO + '/')
        open(f'{HARNESS}/Cargo.toml', 'w').write(ct)
    if os.path.exists('/repo/Cargo.lock'):
        shutil.copy('/repo/Cargo.lock', f'{HARNESS}/Cargo.lock')
    tdir = f'{BUILD}/kani{ALT}' + ('-stub' if stubbing else '')
    cmd = ['cargo', 'kani', '--lib', '--only-codegen', '--no-assertion-reach-checks', '--features', pid.lower(),
           '--target-dir', tdir]
    if stubbing:
        cmd += ['-Z', 'stubbing']
    for n in names:
        cmd += ['--harness', n, ]
    cmd += ['--exact'] if False else []
    t0 = time.time()
    p = subprocess.run(cmd, cwd=HARNESS, env=kani_env(), stdout=subprocess.PIPE, stderr=subprocess.STDOUT, text=True)
    if p.returncode != 0:
        log(p.stdout[-6000:])
        log(f'BUILD-FAILED property={pid}')
        return None, time.time() - t0
    metas = {}
    files = glob.glob(f'{tdir}/kani/x86_64-unknown-linux-gnu/debug/build/vh/*/out/*.kani-metadata.json')
    files.sort(key=os.path.getmtime)
    for f in files:  # newest last wins
        try:
            m = json.load(open(f))
        except Exception:
            continue
        for h in m.get('proof_harnesses', []):
            short = h['pretty_name'].split('::')[-1]
            if os.path.exists(h['goto_file']):
                metas[short] = h
    return metas, time.time() - t0


def limit(mem_gb):
    def f():
        b = int(mem_gb * (1 << 30))
        resource.setrlimit(resource.RLIMIT_AS, (b, b))
        os.setsid()
    return f


CHILDREN = set()
NORMALISED = set()


def kill_children(*_a):
    for pid in list(CHILDREN):
        try:
            os.killpg(pid, 9)
        except Exception:
            pass
    os._exit(143)


def run(cmd, timeout, mem_gb, stdout_path=None):
    """Run a tool under a memory and time cap.  Returns (rc, stdout text, wall, status)."""
    t0 = time.time()
    try:
        p = subprocess.Popen(cmd, stdout=subprocess.PIPE, stderr=subprocess.PIPE, preexec_fn=limit(mem_gb))
        CHILDREN.add(p.pid)
        try:
            out, err = p.communicate(timeout=timeout)
            st = 'done'
        except subprocess.TimeoutExpired:
            try:
                os.killpg(p.pid, 9)
            except Exception:
                p.kill()
            out, err = p.communicate()
            st = 'timeout'
        CHILDREN.discard(p.pid)
        return p.returncode, out.decode(errors='replace'), err.decode(errors='replace'), time.time() - t0, st
    except Exception as e:  # pragma: no cover
        return -1, '', str(e), time.time() - t0, 'error'


def prepare_goto(meta, wdir):
    os.makedirs(wdir, exist_ok=True)
    w = f'{wdir}/h.out'
    steps = [
        [f'{BIN}/goto-cc', meta['goto_file'], f'{KANI_REAL}/library/kani/kani_lib.c', '-o', w],
        [f'{BIN}/goto-cc', w, '--function', meta['mangled_name'], '-o', w],
        [f'{BIN}/goto-instrument', '--add-library', '--no-malloc-may-fail', w, w],
        [f'{BIN}/goto-instrument', '--generate-function-body-options', 'assert-false-assume-false',
         '--generate-function-body', '.*', '--drop-unused-functions', w, w],
    ]
    for s in steps:
        p = subprocess.run(s, stdout=subprocess.PIPE, stderr=subprocess.STDOUT, text=True)
        if p.returncode != 0:
            return None, p.stdout[-2000:]
    # Loop normalisation as Kani does it.  On ark-ff's 12-fold unrolled trait-default loops this pass can exhaust memory
    # (DESIGN.md 2.1), so it runs under a cap; if it does not finish the un-normalised program is analysed instead, which
    # is still sound with unwinding assertions on but may produce spurious `unwind` verdicts (never spurious passes).
    w2 = f'{wdir}/h_norm.out'
    rc, _o, _e, _t, st = run([f'{BIN}/goto-instrument', '--ensure-one-backedge-per-target', w, w2], 180, 8)
    if st == 'done' and rc == 0 and os.path.exists(w2):
        NORMALISED.add(wdir)
        return w2, ''
    return w, ''


def list_functions(w):
    p = subprocess.run([f'{BIN}/goto-instrument', '--list-goto-functions', w], stdout=subprocess.PIPE,
                       stderr=subprocess.DEVNULL, text=True)
    fs = set()
    for l in p.stdout.splitlines():
        l = l.split(' /* ')[0].strip()
        if 'ark_' in l:
            fs.add(l)
    return sorted(fs)


def parse_cbmc_json(text):
    """Returns (results list or None, cprover status, error messages)."""
    try:
        arr = json.loads(text)
    except Exception:
        # truncated output (killed): try to salvage nothing
        return None, None, ['unparsable CBMC output']
    res, status, errs = None, None, []
    for o in arr:
        if not isinstance(o, dict):
            continue
        if 'result' in o:
            res = o['result']
        if 'cProverStatus' in o:
            status = o['cProverStatus']
        if o.get('messageType') == 'ERROR':
            errs.append(o.get('messageText', ''))
    return res, status, errs


def classify(results):
    """Split CBMC per-property results into covers / unwinding / unsupported / failed checks."""
    covers_sat = covers_unsat = 0
    unwind_fail, unsupported, failed, total = [], [], [], 0
    for r in results:
        name, desc, st = r.get('property', ''), r.get('description', ''), r.get('status', '')
        loc = r.get('sourceLocation', {})
        where = f"{loc.get('file', '?')}:{loc.get('line', '?')} in {loc.get('function', '?')}"
        if '.cover.' in name or desc.startswith('cover condition'):
            if st in ('FAILURE', 'SATISFIED'):
                covers_sat += 1
            else:
                covers_unsat += 1
            continue
        total += 1
        if st != 'FAILURE':
            continue
        if '.unwind.' in name or 'unwinding assertion' in desc:
            unwind_fail.append(f'{name}: {desc} @ {where}')
        elif 'unsupported' in name or 'is not currently supported' in desc or 'unsupported_construct' in name:
            unsupported.append(f'{name}: {desc} @ {where}')
        else:
            failed.append(dict(property=name, description=desc, where=where))
    return dict(covers_sat=covers_sat, covers_unsat=covers_unsat, unwind_fail=unwind_fail,
                unsupported=unsupported, failed=failed, total=total)


def run_K(h, meta, wdir, timeout, mem_gb):
    w, err = prepare_goto(meta, wdir)
    if not w:
        return dict(verdict='error', detail='goto preparation failed: ' + err, time=0.0)
    cmd = [f'{BIN}/cbmc'] + CBMC_FLAGS + ['--unwind', str(h['unwind'])]
    if 'unwindset' in h['opts']:
        cmd += ['--unwindset', resolve_unwindset(w, h['opts']['unwindset'])]
    cmd += ['--sat-solver', 'cadical', '--slice-formula', w, '--json-ui']
    rc, out, errt, wall, st = run(cmd, timeout, mem_gb)
    r = dict(time=wall, engine='K', functions=list_functions(w), cmd=' '.join(cmd[:1] + cmd[1:]), normalised=wdir in NORMALISED)
    if st == 'timeout':
        r.update(verdict='timeout', detail=f'CBMC exceeded {timeout}s')
        return r
    res, status, errs = parse_cbmc_json(out)
    if res is None:
        oom = 'bad_alloc' in errt or 'Out of memory' in errt or 'out of memory' in (out[-3000:] + errt) or rc in (-9, -6, 6, 134, 137)
        r.update(verdict='oom' if oom else 'error', detail=f'rc={rc} {"; ".join(errs)[:300]} {errt[-300:]}')
        return r
    c = classify(res)
    r.update(c)
    r['checks'] = c['total']
    if status not in ('success', 'failure') or any(x.get('status') == 'ERROR' for x in res):
        oom = any('out of memory' in e.lower() for e in errs)
        r.update(verdict='oom' if oom else 'error', detail=('; '.join(errs) or f'cProverStatus={status}')[:300])
        return r
    if c['unwind_fail']:
        r.update(verdict='unwind', detail=c['unwind_fail'][0])
    elif c['unsupported']:
        r.update(verdict='unsupported', detail=c['unsupported'][0])
    elif c['failed']:
        r.update(verdict='failed', detail=c['failed'][0]['description'] + ' @ ' + c['failed'][0]['where'])
    elif c['covers_sat'] == 0:
        r.update(verdict='vacuous', detail='no cover witness satisfied')
    else:
        r.update(verdict='pass', detail='')
    return r


def resolve_unwindset(w, spec):
    """spec: 'fn-substring[.k]:bound,...' -> CBMC loop ids; the substring is matched against the demangled function name that
    `cbmc --show-loops` prints for each loop (so it survives recompilation), k selects the k-th loop of that function."""
    p = subprocess.run([f'{BIN}/cbmc', '--show-loops', w], stdout=subprocess.PIPE, stderr=subprocess.DEVNULL, text=True)
    loops = re.findall(r'^Loop (\S+):\n.* function (.*)$', p.stdout, re.M)
    out = []
    for item in spec.split(','):
        sub, b = item.rsplit(':', 1)
        k = None
        m = re.match(r'^(.*)\.(\d+)$', sub)
        if m:
            sub, k = m.group(1), m.group(2)
        for lid, fn in loops:
            hit = fn.startswith(sub[1:]) if sub.startswith('^') else (sub in fn)
            if hit and (k is None or lid.endswith('.' + k)):
                out.append(f'{lid}:{b}')
    return ','.join(out)


def run_W(h, meta, wdir, timeout, mem_gb):
    """Engine W: the harness's final `assert!(ok)` is exported as SMT-LIB and decided by cvc5 at word level;
    all other checks of the harness (bounds, overflow, unwinding) are discharged by CBMC/CaDiCaL."""
    w, err = prepare_goto(meta, wdir)
    if not w:
        return dict(verdict='error', detail='goto preparation failed: ' + err, time=0.0)
    base = [f'{BIN}/cbmc'] + CBMC_FLAGS + ['--unwind', str(h['unwind']), '--slice-formula']
    p = subprocess.run(base + ['--show-properties', '--json-ui', w], stdout=subprocess.PIPE, stderr=subprocess.DEVNULL, text=True)
    props = []
    try:
        for o in json.loads(p.stdout):
            if isinstance(o, dict) and 'properties' in o:
                props = o['properties']
    except Exception:
        pass
    main = [q['name'] for q in props if q.get('description', '').startswith('assertion failed: ok')]
    if len(main) != 1:
        return dict(verdict='error', detail=f'expected exactly one `assert!(ok)`, found {len(main)}', time=0.0)
    main = main[0]
    t0 = time.time()
    smt = f'{wdir}/q.smt2'
    rc, out, errt, wall, st = run(base + ['--property', main, '--smt2', '--outfile', smt, w], timeout, mem_gb)
    r = dict(engine='W', functions=list_functions(w), main_property=main, normalised=wdir in NORMALISED)
    if st == 'timeout' or not os.path.exists(smt):
        r.update(verdict='timeout' if st == 'timeout' else 'error', detail='SMT export failed ' + errt[-300:], time=time.time() - t0)
        return r
    # 1. the multiplier-free remainder by CaDiCaL
    others = [q['name'] for q in props if q['name'] != main]
    # (the property names go on the command line: several CBMC runs when the list would exceed the argument-size limit)
    chunks, cur, size = [], [], 0
    for q in others:
        if cur and size + len(q) + 12 > 1400000:
            chunks.append(cur)
            cur, size = [], 0
        cur.append(q)
        size += len(q) + 12
    chunks.append(cur)
    res, status, errs = [], 'success', []
    for ch in chunks:
        cmd = base + ['--sat-solver', 'cadical', w, '--json-ui']
        for q in ch:
            cmd += ['--property', q]
        rc, out, errt, wallk, st = run(cmd, timeout, mem_gb)
        if st == 'timeout':
            r.update(verdict='timeout', detail='side checks timed out', time=time.time() - t0)
            return r
        res1, status1, errs1 = parse_cbmc_json(out)
        if res1 is None:
            r.update(verdict='error', detail=f'side checks: rc={rc} {errt[-300:]}', time=time.time() - t0)
            return r
        res += res1
        errs += errs1
        if status1 not in ('success', 'failure'):
            status = status1            # tool error: reported below
        elif status1 == 'failure' and status == 'success':
            status = 'failure'
    c = classify(res)
    r.update(c)
    r['checks'] = c['total'] + 1
    if status not in ('success', 'failure') or any(x.get('status') == 'ERROR' for x in res):
        r.update(verdict='error', detail=('side checks: ' + '; '.join(errs) or f'cProverStatus={status}')[:300], time=time.time() - t0)
        return r
    if c['unwind_fail'] or c['unsupported'] or c['failed']:
        v = 'unwind' if c['unwind_fail'] else 'unsupported' if c['unsupported'] else 'failed'
        d = (c['unwind_fail'] or c['unsupported'] or [c['failed'][0]['description'] + ' @ ' + c['failed'][0]['where']])[0]
        r.update(verdict=v, detail=d, time=time.time() - t0)
        return r
    if c['covers_sat'] == 0:
        r.update(verdict='vacuous', detail='no cover witness satisfied', time=time.time() - t0)
        return r
    # 2. the main assertion by cvc5 (word level)
    txt = ''.join(l for l in open(smt) if not l.startswith('(get-value') and not l.startswith('(exit'))
    # CBMC 6.11's SMT2 back end lays out `overflow_result-*` as concat(result, overflow-bit) although struct members are
    # extracted with member 0 in the low bits: the product would be read shifted by one bit.  Re-order the concat.
    txt, nfix = re.subn(r'\(concat \(\(_ extract (\d+) 0\) prod\) \(ite \((bv[su]ge prod \(_ bv\d+ \d+\))\) #b1 #b0\)\)',
                        r'(concat (ite (\2) #b1 #b0) ((_ extract \1 0) prod))', txt)
    r['smt_overflow_result_fixups'] = nfix
    if re.search(r'\(concat \(\(_ extract \d+ 0\) \w+\) \(ite [^\n]{0,200}? #b1 #b0\)\)', txt):
        r.update(verdict='error', detail='unrecognised overflow_result layout in SMT export', time=time.time() - t0)
        return r
    open(smt, 'w').write(txt)
    rc, out, errt, walls, st = run(['cvc5', '--lang', 'smt2', smt], timeout, mem_gb)
    r['smt_time'] = walls
    r['smt_bytes'] = os.path.getsize(smt)
    first = out.strip().splitlines()[0] if out.strip() else ''
    r['time'] = time.time() - t0
    if st == 'timeout':
        r.update(verdict='timeout', detail=f'cvc5 exceeded {timeout}s')
    elif '(error' in out or '(error' in errt:
        r.update(verdict='error', detail='cvc5 error: ' + (out + errt)[:300])
    elif first == 'unsat':
        r.update(verdict='pass', detail='')
    elif first == 'sat':
        r.update(verdict='failed', detail='cvc5: sat for assertion failed: ok', failed=[dict(property=main, description='assertion failed: ok', where='harness')])
    else:
        r.update(verdict='error', detail=f'cvc5 answered {first!r} rc={rc} {errt[-200:]}')
    try:
        os.remove(smt)
    except OSError:
        pass
    return r


# ---------------------------------------------------------------------------------------------
# counterexample extraction and native replay

def trace_values(h, meta, wdir, failed, timeout, mem_gb):
    """Concrete values of a counterexample: re-run CBMC with --trace on one failed property and read the values returned by
    kani::any_raw_* (the same extraction Kani's concrete playback performs).  Returns list of (check, [[bytes]...])."""
    w, err = prepare_goto(meta, wdir)
    if not w:
        return None
    out = []
    for f in failed[:3]:
        cmd = [f'{BIN}/cbmc'] + CBMC_FLAGS + ['--unwind', str(h['unwind'])]
        if 'unwindset' in h['opts']:
            cmd += ['--unwindset', resolve_unwindset(w, h['opts']['unwindset'])]
        cmd += ['--sat-solver', 'cadical', '--slice-formula', w, '--json-ui', '--trace', '--property', f['property']]
        rc, txt, errt, wall, st = run(cmd, timeout, mem_gb)
        if st != 'done':
            continue
        try:
            arr = json.loads(txt)
        except Exception:
            continue
        for o in arr:
            if not isinstance(o, dict) or 'result' not in o:
                continue
            for r in o['result']:
                if r.get('status') != 'FAILURE' or 'trace' not in r:
                    continue
                vals = []
                for stp in r['trace']:
                    if stp.get('stepType') != 'assignment' or not str(stp.get('lhs', '')).startswith('goto_symex$$return_value'):
                        continue
                    fn = stp.get('sourceLocation', {}).get('function', '')
                    v = stp.get('value', {})
                    if not fn.startswith('kani::any_raw_') or 'binary' not in v:
                        continue
                    b = v['binary']
                    b = b.zfill((len(b) + 7) // 8 * 8)
                    by = [int(b[k:k + 8], 2) for k in range(0, len(b), 8)]
                    vals.append(by[::-1])
                out.append((f['description'], vals))
    shutil.rmtree(wdir, ignore_errors=True)
    return out or None


def native_replay(pid, name, path):
    """Run the harness function natively on recorded values, dev and release profile.
    Returns dict profile -> 'fails' | 'passes' | 'outside-assumption' | 'build-error'."""
    res = {}
    for prof in ('dev', 'release'):
        cmd = ['cargo', 'run', '--offline', '-q', '--features', f'std,{pid.lower()}', '--bin', 'replay',
               '--target-dir', f'{BUILD}/native{ALT}']
        if prof == 'release':
            cmd.append('--release')
        cmd += ['--', name, path]
        e = dict(os.environ)
        e['CARGO_NET_OFFLINE'] = 'true'
        try:
            p = subprocess.run(cmd, cwd=HARNESS, env=e, stdout=subprocess.PIPE, stderr=subprocess.STDOUT, text=True, timeout=3600)
        except subprocess.TimeoutExpired:
            res[prof] = 'timeout'
            continue
        if 'REPLAY-OK' in p.stdout and p.returncode == 0:
            res[prof] = 'passes'
        elif 'REPLAY-OUTSIDE-ASSUMPTION' in p.stdout:
            res[prof] = 'outside-assumption'
        elif 'REPLAY-START' in p.stdout:
            res[prof] = 'fails'
            res[prof + '_output'] = p.stdout[-600:]
        else:
            res[prof] = 'build-error'
            res[prof + '_output'] = p.stdout[-1500:]
    return res


def load_known():
    try:
        return json.load(open(f'{ROOT}/known_findings.json'))
    except Exception:
        return {'findings': [], 'fixed': []}


def match_known(known, pid, hname, failed):
    """A finding is keyed by property + harness (the harness fixes the input region) + a regex on the failing check."""
    for k in known.get('findings', []):
        if k.get('property') != pid or k.get('harness') != hname:
            continue
        rx = k.get('check_regex', '.*')
        if all(re.search(rx, f['description'] + ' @ ' + f['where']) for f in failed):
            return k
    return None


def do_replay(path):
    path = os.path.abspath(path)
    d = json.load(open(path))
    pid, name = d['property'], d['harness']
    res = native_replay(pid, name, path)
    log(json.dumps(res, indent=1))
    if 'fails' in res.values():
        log(f'VIOLATION property={pid} replay={path}')
        return 1
    return 0


# ---------------------------------------------------------------------------------------------

def main():
    import signal
    signal.signal(signal.SIGTERM, kill_children)
    signal.signal(signal.SIGINT, kill_children)
    ap = argparse.ArgumentParser()
    ap.add_argument('pid')
    ap.add_argument('--tier', default=os.environ.get('VERIF_TIER', 'quick'))
    ap.add_argument('--only', default=None)
    ap.add_argument('--jobs', type=int, default=None)
    ap.add_argument('--replay', default=None)
    ap.add_argument('--no-evidence', action='store_true')
    a = ap.parse_args()
    pid = a.pid.upper()
    if a.replay:
        sys.exit(do_replay(a.replay))
    tier = a.tier if a.tier in ('quick', 'thorough') else 'quick'
    seed = int(os.environ.get('VERIF_SEED', '0') or 0)
    t_start = time.time()
    hs = parse_harnesses(pid)
    if tier == 'quick':
        hs = [h for h in hs if h['tier'] == 'quick']
    if a.only:
        hs = [h for h in hs if re.search(a.only, h['name'])]
    if not hs:
        log(f'no harnesses for {pid}')
        sys.exit(2)
    # scheduling order only depends on the seed
    import random
    random.Random(seed).shuffle(hs)
    hs.sort(key=lambda h: -int(h['opts'].get('cost', 1)))
    known = load_known()

    groups = {False: [h for h in hs if not h['opts'].get('stubs')], True: [h for h in hs if h['opts'].get('stubs')]}
    metas, build_s = {}, 0.0
    for stub, g in groups.items():
        if not g:
            continue
        m, bs = build(pid, [h['name'] for h in g], stubbing=stub)
        build_s += bs
        if m is None:
            sys.exit(2)
        metas.update({h['name']: m.get(h['name']) for h in g})
    missing = [n for n, m in metas.items() if m is None]
    if missing:
        log(f'INCONCLUSIVE property={pid} harnesses missing from build: {missing}')
        sys.exit(2)
    log(f'[{pid}] built {len(hs)} harnesses in {build_s:.0f}s')

    default_to = 1200 if tier == 'quick' else 2400
    default_mem = 12 if tier == 'quick' else 24
    # thorough-tier processes may use up to 24-30 GB each: fewer of them in parallel
    jobs = a.jobs or int(os.environ.get('VERIF_JOBS', '12' if tier == 'quick' else '5'))
    wroot = f'{BUILD}/work{ALT}/{pid}'
    shutil.rmtree(wroot, ignore_errors=True)

    cap_s = int(os.environ.get('VERIF_CAP_S', '0') or 0)  # development aid: cap every harness (then reported as capped)

    def one(h):
        to = int(h['opts'].get('timeout', default_to))
        if cap_s:
            to = min(to, cap_s)
        mem = float(h['opts'].get('mem', default_mem))
        wdir = f'{wroot}/{h["name"]}'
        eng = h['opts'].get('engine', 'K')
        r = (run_W if eng == 'W' else run_K)(h, metas[h['name']], wdir, to, mem)
        shutil.rmtree(wdir, ignore_errors=True)
        r['harness'] = h
        log(f'[{pid}] {h["name"]:<44} {r["verdict"]:<8} {r.get("time", 0):7.1f}s  {r.get("detail", "")[:160]}')
        return r

    with cf.ThreadPoolExecutor(max_workers=jobs) as ex:
        results = list(ex.map(one, hs))

    # ---- interpret
    violations, known_lines, inconclusive, capped = [], [], [], []
    discharged = obligations = 0
    for r in results:
        h = r['harness']
        v = r['verdict']
        if h['kind'] == 'finding':
            # a harness restricted to the input region of a recorded finding: expected to fail on the unchanged tree
            k = match_known(known, pid, h['name'], r.get('failed', [])) if v == 'failed' else None
            if v == 'failed' and k:
                known_lines.append(f"KNOWN-FINDING: property={pid} {k['what']}")
                r['known'] = k['what']
            elif v == 'failed':
                violations.append(r)
            elif v == 'pass':
                r['note'] = 'recorded finding no longer reproduces (fixed?)'
            else:
                capped.append(r)
            continue
        obligations += 1
        if v == 'pass':
            discharged += 1
        elif v == 'failed':
            violations.append(r)
        elif (h['kind'] == 'attempt' or cap_s or (tier == 'thorough' and h['tier'] == 'thorough')) and v in ('timeout', 'oom'):
            capped.append(r)
            obligations -= 1
        else:
            inconclusive.append(r)

    exit_code = 0
    viol_reported = 0
    for r in violations:
        h = r['harness']
        cands = trace_values(h, metas[h['name']], f'{wroot}/{h["name"]}-trace', r.get('failed', []), int(h['opts'].get('timeout', default_to)) * 2, float(h['opts'].get('mem', default_mem)))
        if not cands:
            log(f'INCONCLUSIVE property={pid} harness={h["name"]}: solver reported {r["detail"]!r} but no concrete values could be extracted')
            inconclusive.append(r)
            continue
        os.makedirs(f'{ROOT}/replays/{pid}', exist_ok=True)  # (replays of seeded-change trials land here too; the directory is git-ignored)
        reproduced = False
        tried = []
        for chk, vals in cands[:4]:
            hh = hashlib.sha1(json.dumps(vals).encode()).hexdigest()[:10]
            path = f'{ROOT}/replays/{pid}/{h["name"]}-{hh}.json'
            json.dump(dict(property=pid, harness=h['name'], values=vals, solver_check=chk, failed_checks=r.get('failed', []), domain=h['desc']), open(path, 'w'), indent=1)
            nat = native_replay(pid, h['name'], path)
            tried.append((path, nat))
            if 'fails' in nat.values():
                r['replay'] = dict(path=path, native=nat)
                log(f'VIOLATION property={pid} replay={path}')
                log(f'  harness={h["name"]} check={chk!r} native={ {k: v for k, v in nat.items() if not k.endswith("_output")} }')
                viol_reported += 1
                exit_code = 1
                reproduced = True
                break
        if not reproduced:
            log(f'INCONCLUSIVE property={pid} harness={h["name"]}: model does not reproduce natively: {tried}')
            inconclusive.append(r)
    for l in sorted(set(known_lines)):
        log(l)
    for r in inconclusive:
        h = r['harness']
        if r['verdict'] != 'failed':
            log(f'INCONCLUSIVE property={pid} harness={h["name"]} verdict={r["verdict"]} {r.get("detail", "")[:200]}')
    if inconclusive and exit_code == 0:
        exit_code = 2

    # ---- evidence
    funcs = sorted({f for r in results for f in r.get('functions', [])})
    samples = []
    for r in results:
        h = r['harness']
        samples.append(dict(harness=h['name'], domain=h['desc'], engine=r.get('engine', h['opts'].get('engine', 'K')), unwind=h['unwind'],
                            verdict=r['verdict'], kind=h['kind'], solver_s=round(r.get('time', 0), 1), checks=r.get('checks', 0),
                            covers_satisfied=r.get('covers_sat', 0), loops_normalised=r.get('normalised', False), **({'known_finding': r['known']} if 'known' in r else {})))
    ev = dict(
        property_id=pid, tier=tier, seed=seed, level='model_checking',
        coverage=dict(
            evaluations=sum(r.get('checks', 0) + r.get('covers_sat', 0) + r.get('covers_unsat', 0) for r in results),
            distinct_nontrivial=sum(1 for r in results if r.get('covers_sat', 0) > 0 and r['verdict'] in ('pass', 'failed')),
            rule='evaluations = CBMC properties (assertions, bounds/overflow checks, unwinding assertions, cover witnesses) decided by the solver over '
                 'ALL values of the symbolic inputs of each harness; distinct_nontrivial = harnesses that were decided AND whose kani::cover! '
                 'reachability witness (placed after the last assumption, on the interesting region) was SATISFIED, i.e. non-vacuous',
            obligations=obligations, discharged=discharged,
            harnesses=len(results), capped=[r['harness']['name'] for r in capped],
            inconclusive=[r['harness']['name'] for r in inconclusive],
            known_findings=sorted(set(known_lines)),
            functions_encoded=funcs[:400], functions_encoded_count=len(funcs),
            solver='CBMC 6.11 symbolic execution of the Kani-compiled GOTO program; CaDiCaL (engine K) / SMT-LIB export decided by cvc5 1.0 (engine W)',
            solver_time_s=round(sum(r.get('time', 0) for r in results), 1), build_s=round(build_s, 1),
            samples=samples,
            exhaustive=False,
        ),
        assumptions=[
            'bounded: every loop fully unwound up to the per-harness bound, unwinding assertions ON (a too-small bound is reported, not truncated)',
            'instantiations are the ones named in each sample; other instantiations of the same generic code are outside the claim',
            'Kani models the dev profile with overflow checks on; CBMC flags as Kani passes them (--no-malloc-may-fail, --object-bits 16)',
            'goto-instrument --ensure-one-backedge-per-target is run under an 8 GB / 180 s cap; harnesses where it does not finish (sample field loops_normalised=false) are analysed un-normalised, which can only cause spurious `unwind` verdicts, not passes',
            '--no-assertion-reach-checks; vacuity is guarded by explicit kani::cover! witnesses instead',
        ],
        wall_s=round(time.time() - t_start, 1), violations=viol_reported,
    )
    extra = f'{ROOT}/harness/src/{pid.lower()}_assumptions.txt'
    if os.path.exists(extra):
        ev['assumptions'] += [l.strip() for l in open(extra) if l.strip()]
    if not a.no_evidence and not a.only and not ALT:
        os.makedirs(f'{ROOT}/evidence', exist_ok=True)
        json.dump(ev, open(f'{ROOT}/evidence/{pid}.json', 'w'), indent=1)
    log(f'[{pid}] tier={tier} obligations={obligations} discharged={discharged} capped={len(capped)} inconclusive={len(inconclusive)} '
        f'violations={viol_reported} known={len(set(known_lines))} wall={time.time() - t_start:.0f}s exit={exit_code}')
    sys.exit(exit_code)


if __name__ == '__main__':
    main()
