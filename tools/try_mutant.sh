#!/bin/bash
# try_mutant.sh <patch.diff> <PID> [extra ./check args...]
# Applies a seeded change in a scratch worktree of /repo (never in /repo itself), runs the property's check against that worktree
# (VERIF_REPO), and removes the change again.  Exit code = exit code of the check (1 = VIOLATION reported).
PATCH=$1; PID=$2; shift 2
WT=${TRY_WT:-/tmp/wt/try}
if [ ! -d $WT ]; then git -C /repo worktree add -q --detach $WT HEAD || exit 9; fi
cd $WT || exit 9
git checkout -q --detach $(git -C /repo rev-parse HEAD) 2>/dev/null
git checkout -- . ; git clean -fdq -e target -e Cargo.lock; cp /repo/Cargo.lock .
git apply "$PATCH" || { echo "APPLY-FAILED"; exit 8; }
cd /verif && VERIF_REPO=$WT ./check $PID --no-evidence "$@"
rc=$?
git -C $WT checkout -- .
echo "MUTANT-RESULT patch=$PATCH property=$PID check_exit=$rc"
exit $rc
