#!/bin/bash
# try_mutant.sh <patch.diff> <PID> [extra ./check args...] : apply a seeded change to /repo, run the check, undo it straight afterwards
PATCH=$1; PID=$2; shift 2
cd /repo || exit 9
if [ -n "$(git status --porcelain --untracked-files=no)" ]; then echo "repo dirty"; exit 9; fi
git apply "$PATCH" || { echo "APPLY-FAILED"; exit 8; }
trap 'git -C /repo checkout -- .' EXIT
cd /verif && ./check $PID --no-evidence "$@"
rc=$?
echo "MUTANT-RESULT patch=$PATCH property=$PID check_exit=$rc"
exit $rc
