#!/usr/bin/env python3
"""Regenerate MANIFEST.json from the per-property claim table below (keeps it valid and consistent)."""
import json, os, subprocess
ROOT = os.path.dirname(os.path.dirname(os.path.abspath(__file__)))
TECH_K = 'bounded model checking of the compiled Rust (Kani 0.68 -> CBMC 6.11, CaDiCaL): symbolic inputs, unwinding assertions on, cover witnesses against vacuity, native replay of counterexamples'
TECH_KW = TECH_K + '; multiplication kernels exported by CBMC as SMT-LIB and decided by cvc5 (word-level bit-vectors)'
NOTE = ('Trusted: rustc/Kani MIR->GOTO translation, CBMC, CaDiCaL, cvc5; the harness-crate oracles (independent reference arithmetic, no ark_* code). '
        'Bounded: instantiations, sizes and unwind bounds are those listed in the evidence samples; other instantiations of the same generic code are outside the claim. ')
CLAIMS = {
 'C01': dict(tech=TECH_KW, ref='DESIGN.md §4 C01',
   text='Real generic Fp<MontBackend> code instantiated in the harness crate, each modulus BOTH through #[derive(MontConfig)] (macro-generated arithmetic) and as a hand-written impl MontConfig (trait-default arithmetic). Tiny moduli (13, 251, 65521/65537; thorough: 3,7,17,31,73,97,127,257): the solver decides over ALL operands add/sub/neg/double/mul/square/inverse/sum_of_products/from_bigint/into_bigint/From<ints>/bytes_mod_order against integer arithmetic mod p on independently decoded values, results canonical. Full-width moduli (1,2,4,6 limbs quick; 12,13 thorough; with/without spare bit, no-carry eligible or not, Mersenne, top limb 2^63-1): add/sub/neg/double over ALL operands vs limb-wise reference; Montgomery mul (and into_bigint) over ALL operands at 1 and 2 limbs against textbook SOS/CIOS references (cvc5); at 4/6 limbs only narrow operand windows.',
   note=NOTE + 'Multiplication at >= 4 limbs is NOT decided over the operand space (only 8-free-bit windows). pow and batch inversion only in the thorough tier on F_13 (attempts). Decimal FromStr/Display (num-bigint heap radix conversion) not covered. CBMC SMT2 export is patched for a known overflow_result layout bug (DESIGN.md §2.2).'),
 'C15': dict(tech=TECH_KW, ref='DESIGN.md §4 C15',
   text='For BigInt<N> (N=1,2,4,6,7 quick; 12,13 thorough) the solver decides over ALL operands: add_with_carry/sub_with_borrow (limbs and exact carry/borrow), mul2/div2, muln/divn/<</>> for every shift amount 0..64N+64 at bit level, Ord/Eq/predicates, get_bit/num_bits/bit operators, two_adic_*, From<ints>, from_bits/to_bits/to_bytes (N=1; N=2 thorough); mul/mul_low/mul_high over all operands at N=1,2 (cvc5) and on narrow windows at N=4,6; NAF/wNAF/relaxed-NAF recodings reconstruct the value and obey digit constraints for all values < 2^10..2^12, and (thorough) on the wrap-around region next to 2^64 and across the limb boundary.',
   note=NOTE + 'Decimal/hex parsing and printing (num-bigint radix conversion on the heap) are NOT covered. Recodings of generic 64-bit values are outside the bound.'),
}
CLAIMS['C18'] = dict(tech=TECH_K, ref='DESIGN.md §4 C18',
   text='For ALL values of bool, u8..u64, i8..i64, usize/isize, Option, tuples (arity 0..5), arrays, Vec<u16> (len 0,1,3), VecDeque (wrapped ring buffer), LinkedList, Rc/Arc/Cow/slices, BigInt<2>, mode-pinning wrappers around a type whose encodings differ, and derived structs (named, tuple, nested-tuple, generic): round trip in a symbolically chosen (compress, validate) mode, bytes written == serialized_size, truncated encodings are Err. Malformed input: EVERY byte string of length 0..=10/12 offered to the scalar, Option, tuple, array, Vec<u8>, Vec<u32>, VecDeque<u16>, LinkedList<u8> deserializers: Ok or Err, no panic, no capacity overflow / allocation driven by the untrusted length prefix; invalid bool bytes and invalid inner values (checked wrappers, derived Valid) are rejected.',
   note=NOTE + 'String (UTF-8 validation) and BTreeMap/BTreeSet harnesses exceed the memory cap under CBMC and are thorough-tier attempts only (not counted); BigUint thorough attempt. Element types are small integers.')
PLAIN = ' Toy curves are configurations of the REAL ark_ec models over F_13 / F_17 with a table-backed `FpConfig` backend defined in the harness crate (so the solver effort goes into the curve code, not Montgomery arithmetic); oracle tables (points, addition, orders, subgroup, scalar multiples) are computed by brute force in Python from the curve equation.'
CLAIMS['C03'] = dict(tech=TECH_K, ref='DESIGN.md §4 C03',
   text='On toy short-Weierstrass curves (a=0 order 19; a!=0 order 17; cofactor 4 with a point of order two) and twisted-Edwards curves (complete, cofactor 4 and (thorough) 8: whole curve; incomplete law: prime-order subgroup) the solver decides for ALL ordered pairs of points (identity, P+P, P+(-P), 2-torsion) and ALL non-zero projective rescalings of both operands: Projective +, +=, -, mixed addition in both operand orders, Affine+Affine, double, neg, into_affine / From<Affine>, projective equality independent of the representative and Projective==Affine, against the brute-force group-law table; results are exactly the expected point (hence on the curve).',
   note=NOTE + PLAIN + ' normalize_batch / Sum harnesses exceed the CBMC memory cap and are thorough-tier attempts only. Curves over >= 255-bit fields and over extension fields are outside the claim (same generic code).')
CLAIMS['C05'] = dict(tech=TECH_K, ref='DESIGN.md §4 C05',
   text='The real generic VariableBaseMSM code is run over the free abelian group Z^L (harness crate, checked i64 coordinates) with unit-vector bases, so the result must be exactly the vector of integer scalars. Both flavours are reached through the public trait: NEGATION_IS_CHEAP=true (msm_bigint_wnaf + make_digits, as every shipped group) and =false (plain-bucket msm_bigint). Decided for ALL scalars of F_13 (4 bits, two windows) at lengths 1 and 2 (3 thorough), F_61 (6 bits: carry folded into the top digit reaches 2^c), F_127 thorough: msm, msm_unchecked, msm_bigint; mismatched lengths -> Err(min) / truncation; repeated and identity bases; ChunkedPippenger for buffer sizes 1..4 with 2-4 add calls (flush inside add, several flushes, flush at finalize).',
   note=NOTE + 'Parametricity assumption (stated, checked by reading): the MSM code touches group elements only through +, -, double, zero, so correctness on free generators carries to all bases. Scalar fields are 4-7 bits; window-size switch at 32 inputs, msm_chunks multi-chunk streams, HashMapPippenger (thorough attempt), empty input (thorough attempt: CBMC memory) and >16-bit scalar fields are outside the quick claim. Per-loop unwind bounds (--unwindset) with unwinding assertions on.')
CLAIMS['C02'] = dict(tech=TECH_K, ref='DESIGN.md §0, §4 C02',
   text='Real tower templates instantiated over tiny base fields, oracle = schoolbook polynomial arithmetic modulo the defining binomials on integers (independent generic code in the harness crate), ALL coordinates symbolic: Fp2 over F_7 (non-residue -1 branch) and F_13, Fp3 over F_7, Fp4 over F_5: mul/square/add/sub/neg/double for ALL pairs, inverse, Frobenius (frobenius_map(1) = x^p by oracle power; frobenius_map(k) = k-fold iterate, k up to degree+1), norm, multiplication by base-field elements; Fp6_3over2 and Fp6_2over3 over F_7: square/inverse total, mul with x over ALL elements and y on two-coordinate windows; sparse multiplications (mul_by_1, mul_by_fp2, mul_by_fp, mul_by_034, mul_by_014, Fp4 mul_by_fp/fp2) equal full multiplication by the embedded sparse element.',
   note=NOTE + PLAIN.replace('Toy curves are configurations of the REAL ark_ec models over F_13 / F_17','Towers are built over F_5/F_7/F_13') + ' SAT cannot prove Karatsuba = schoolbook beyond ~2^24 input space: degree-6 multiplication is decided on windows only, Fp12 (mul, Frobenius, inverse, sparse muls) and cyclotomic operations only in the thorough tier (attempts). Shipped towers over 298-761-bit fields are outside the claim (same template code).')
CLAIMS['C04'] = dict(tech=TECH_K, ref='DESIGN.md §0, §4 C04',
   text='(a) Real SW/TE model code on toy curves, oracle = brute-force scalar-multiple table: Affine::mul_bigint, Affine * s, Projective *= s, mul_bits_be (ALL bit streams of length <= 5 incl. empty and all-zero), TE mul_bigint and Projective * s, for ALL points (identity, small-order points) and ALL raw integers k < 2^4 (k >= r, 0, 1, r-1 inside) / ALL scalar-field elements. (b) The generic algorithms over the free group Z with base 1, where the result must be the integer k: WnafContext::mul (windows 2, 3), table + mul_with_table (too-short table -> None), BatchMulPreprocessing::new(..).batch_mul, for ALL scalars of F_13 / F_61.',
   note=NOTE + PLAIN + ' GLV decomposition / glv_mul (num-bigint division) is NOT covered; scalars are 4-6 bits; 2-limb scalars, window 4 and larger tables only in the thorough tier.')
CLAIMS['C07'] = dict(tech=TECH_K, ref='DESIGN.md §0, §4 C07',
   text='Radix-2 / General evaluation domains over F_17 (two-adicity 4): construction for requested sizes 0,1,2,3,5,8,9,16,17,20 (size minimal power of two >= n, None exactly when no subgroup exists, generator of EXACT order, inverse/size_inv fields consistent); cosets with offsets 3 and -1: element(i), elements() order, evaluate_vanishing_polynomial at ALL points; FFT of ALL coefficient vectors (size 4; input lengths 0..4, i.e. both sides of the degree-aware threshold; subgroup, generic coset, and a coset whose offset lies inside the subgroup) equals Horner evaluation at offset*g^i for every i, and ifft(fft(c)) = c.  Thorough tier: sizes 8 and 16, Lagrange coefficients at ALL points (inside and outside the coset), symbolic requested size.',
   note=NOTE + 'Field = table-backed FpConfig F_17 (harness crate). Coset offsets are concrete (a symbolic offset makes the pow/inverse chain in get_coset too expensive). Mixed-radix domains, sizes > 16 and 255-bit fields are outside the claim.')
CLAIMS['C08'] = dict(tech=TECH_K, ref='DESIGN.md §0, §4 C08',
   text='DensePolynomial over F_13 with concrete lengths and ALL coefficients symbolic (non-zero leading coefficient; zero polynomial as its own case): +, -, neg, scalar *, +=, -=, scaled add (a += (s, &b) = a + s*b) for length pairs (2,2) [cancelling leading terms], (3,1)/(1,3), zero operands: result canonical (no leading zero, degree() does not fail) and pointwise equal to the combination of the operands at a symbolic evaluation point (all degrees < 13, so this is polynomial equality); constructors canonicalise ALL raw coefficient vectors of length <= 3.',
   note=NOTE + 'SparsePolynomial construction (sort_by on a Vec of pairs) exceeds the CBMC budget even for one term: ALL sparse, dense/sparse-mixed, naive_mul and division harnesses are thorough-tier ATTEMPTS and not part of the claim. The six sparse/mixed defects repaired by fix: commits were found by replaying those harness functions natively on random tapes (tools/native_smoke.py), not by the solver.')
CLAIMS['C09'] = dict(tech=TECH_K, ref='DESIGN.md §0, §4 C09',
   text='Field elements (real Montgomery fields of 4, 7, 8 bits; 16/17 bits thorough): for ALL x, every flag type (EmptyFlags, SWFlags x3, TEFlags x2) and all modes: deserialize(serialize(x)) = (x, flags), bytes written = advertised size = ceil((bits+flag bits)/8), integer part little-endian canonical; uniqueness: EVERY byte string of the advertised length that deserializes re-serializes to the same bytes. Toy SW / TE curve points (affine and projective, ALL rescalings, identity, y = 0 and x = 0 sign edge cases) x 4 modes: round trip and bytes written = serialized_size.',
   note=NOTE + PLAIN + ' Fp2/Fp3 coordinates and real-width (255-753 bit) layouts are not in the quick claim.')
CLAIMS['C10'] = dict(tech=TECH_K, ref='DESIGN.md §0, §4 C10',
   text='EVERY byte string of length 0..=2 offered to the point deserializers of toy SW (cofactor 1 and 4) and TE (complete cofactor 4; incomplete law where the decompression denominator can vanish) curves in all 4 modes, and every byte string up to size+1 to field deserializers: never a panic / overflow, exactly the advertised number of bytes consumed, Ok(point) exactly when an independent brute-force decoder succeeds; with validation a returned point is on the curve AND in the prime-order subgroup; both-flags-set, non-reduced coordinates, abscissae without root, off-curve and out-of-subgroup encodings are rejected.',
   note=NOTE + PLAIN + ' Curve-specific fast subgroup tests of the 254-381-bit curve crates and PairingOutput are not covered.')
CLAIMS['C11'] = dict(tech=TECH_K, ref='DESIGN.md §0, §4 C11',
   text='For ALL x: sqrt(x) is Some exactly when x is a square (brute-force oracle / Euler criterion by oracle power), root^2 = x, sqrt(0) = 0, legendre agrees: F_7 (Case3Mod4 from the real MontConfig), F_17 (generic Tonelli-Shanks over the table-backed field, two-adicity 4, maximal-round elements inside), Fp2 over F_7 (both c1 = 0 sub-cases). Curve helpers get_ys_from_x_unchecked / get_point_from_x_unchecked (SW) and get_xs_from_y_unchecked / get_point_from_y_unchecked (TE, incl. a curve whose denominator vanishes) for ALL coordinates: None iff no point, otherwise both solutions in (smaller, larger) order.',
   note=NOTE + PLAIN + ' Tonelli-Shanks over the real Montgomery F_13, Fp2/F_13, Fp3 and two-adicity > 4 are thorough-tier (attempts).')
CLAIMS['C12'] = dict(tech=TECH_K, ref='DESIGN.md §0, §4 C12',
   text='DEFAULT implementations on toy curves, for ALL points of E(F_q) (mostly outside the subgroup; 2-/4-torsion included): is_in_correct_subgroup_assuming_on_curve(P) <=> r*P = O (brute-force table), cofactor-1 curve always true; clear_cofactor / mul_by_cofactor = h*P and lands in the subgroup; mul_by_cofactor_inv composed with mul_by_cofactor is the identity on the subgroup. SW cofactor 4 and 1, TE cofactor 4 (8 thorough).',
   note=NOTE + PLAIN + ' The endomorphism-based overrides of bls12_381 / bls12_377 / bn254 (psi, sigma) are NOT covered (254-381-bit fields).')
CLAIMS['C13'] = dict(tech=TECH_K, ref='DESIGN.md §0, §4 C13',
   text='hash_to_field through the public DefaultFieldHasher (generic over the digest) with a toy 4-byte digest: for ALL messages of length 0, 1, 2, 3 and ALL DSTs of length 2 (and the empty DST; 4-byte DST thorough), two field elements over F_13 and one over Fp2 equal an independent implementation of RFC 9380 expand_message_xmd + OS2IP mod p over the same digest (Z_pad, I2OSP(len,2), I2OSP(0,1), DST prime, b_0/b_1/strxor chaining, chunk offsets). Simplified SWU on a toy curve for ALL field elements u (u = 0 and exceptional denominators inside): output equals the straight-line RFC 9380 6.6.2 reference, lies on the curve, sgn0(y) = sgn0(u).',
   note=NOTE + PLAIN + ' The instantiation uses L = digest block size as the supported BLS12-381 suites do. NOT covered: byte equality with RFC 9380 for BLS12-381 (381-bit SWU + isogeny + SHA-256), oversize DST path, Wahby-Boneh and Elligator 2 maps, final cofactor clearing.')
CLAIMS['C16'] = dict(tech=TECH_K + ' (used as an interpreter: these configurations are closed, there is no free input)', ref='DESIGN.md §0, §4 C16',
   text='GROUND relations (no symbolic input) recomputed independently: Montgomery constants INV, R, R2 (vs shift-and-subtract), spare-bit and no-carry flags for every field configuration of test-curves (bls12_381, mnt4_753, bn384, secp256k1, ed_on_bls12_381, fp128), curves/bls12_381 and the harness configurations; TWO_ADICITY = v2(p-1) and TWO_ADIC_ROOT_OF_UNITY of EXACT order 2^s; curve generators on their curve; COFACTOR * COFACTOR_INV = 1 mod r.',
   note=NOTE + 'free_inputs: 0. NOT covered: generator non-residuosity, root = g^t exactly, r*G = O, Frobenius tables, GLV / isogeny / twist parameters, and every curves/* crate other than bls12_381 (they depend on crates that are not available offline).')
CLAIMS['C17'] = dict(tech=TECH_K, ref='DESIGN.md §0, §4 C17',
   text='DenseMultilinearExtension over F_13 with ALL table values and ALL evaluation points symbolic (Boolean and non-Boolean): evaluate = sum over the hypercube of table[b]*eq(b, r) for 1 and 2 variables (0 and 3 thorough); fix_variables for every prefix length; concat with zero padding; neg (2 variables); +, -, scaled += (1 variable; 2 variables thorough).  Thorough: relabel for ALL admissible (a, b, k), scalar *.',
   note=NOTE + 'Field = table-backed F_13. Sparse MLE (hashbrown) and multivariate SparsePolynomial harnesses are thorough attempts. KNOWN-FINDING (recorded, not repaired): scaling a dense MLE by the scalar 0 collapses it to the 0-variable constant zero, so evaluate() at a point of the original dimension panics.')
CLAIMS['C19'] = dict(tech=TECH_K, ref='DESIGN.md §0, §4 C19',
   text='Prime fields (Montgomery F_13 derive, F_251 hand-written), ALL triples: == iff same integer, cmp/partial_cmp/</<= are the integer order of the decoded values (not of the Montgomery limbs), transitive, is_zero/is_one iff == ZERO/ONE, equal values feed identical byte streams to Hash; Fp2: documented lexicographic order (c1 then c0), total, antisymmetric, transitive, consistent with ==. Toy SW and TE curves, ALL pairs of points and ALL rescalings: projective == independent of representative, Projective == Affine, equal points hash identically (different Jacobian/extended coordinates, affine vs projective).',
   note=NOTE + PLAIN + ' BigInt ordering is decided in C15. PairingOutput and polynomial equality after different operation sequences are not covered.')
CLAIMS['C20'] = dict(tech=TECH_KW, ref='DESIGN.md §0, §4 C20',
   text='The const constructors behind the literal macros are ordinary functions: Fp::from_sign_and_limbs(sign, [v]) and Fp::new for ALL v < 2^8..2^10 (values >= p and multiples of p included) and both signs equal +-(v mod p) canonically on tiny moduli (derive and hand-written); Fp::new(v) equals the textbook Montgomery product v*R2*R^-1 for ALL v: u64 (cvc5) for F_13 and for full one-limb moduli (no spare bit, hand-written, spare bit). Literal text -> limbs runs inside rustc: a fixed grid of MontFp!/BigInt! literals (radix 2/8/10/16, minus sign, leading zeros, 0, 1, p-1, p, p+1; 1-4 limbs) is compared with run-time values (ground).',
   note=NOTE + 'All literal strings are NOT decided (proc macro); 2-limb and wider const constructors are not in the quick claim.')
NA = {
 'C14': 'Results independent of the parallel feature / thread count: Kani/CBMC do not model threads, so schedules cannot be explored; the planned sequential-rayon stub with a symbolic thread count (DESIGN.md §4 C14) was not built in the time available, so nothing is claimed.',
 'C06': 'Pairings: >= 10^4 full-width symbolic 64x64 multiplications per pairing and no tractable instantiation of the shipped models; one 4-limb Montgomery multiplication is already beyond both solver back ends (DESIGN.md §4 C06).',
}
ALL = ['C%02d' % i for i in range(1, 21)]

def main():
    checks = []
    enabled = set(open(f'{ROOT}/tools/enabled.txt').read().split())
    for pid in ALL:
        if pid not in CLAIMS or pid not in enabled:
            continue
        c = CLAIMS[pid]
        checks.append(dict(
            property_id=pid, quick_cmd=f'./check {pid} --tier quick', thorough_cmd=f'./check {pid} --tier thorough',
            evidence_file=f'/verif/evidence/{pid}.json', replay_cmd_template=f'./check {pid} --replay {{path}}', engine='kani-cbmc',
            level_claimed=dict(category='model_checking', text=c['text'], design_ref=c['ref']),
            level_note=c['note'], technique=c['tech']))
    na = []
    for pid in ALL:
        if pid in CLAIMS and pid in enabled:
            continue
        na.append(dict(property_id=pid, reason=NA.get(pid, 'Harnesses exist (harness/src) but their quick tier is not calibrated green on the unchanged tree in this revision; not claimed.')))
    try:
        fixes = subprocess.run(['git', '-C', '/repo', 'log', '--format=%H %s', '--grep=^fix:'], stdout=subprocess.PIPE, text=True).stdout.split('\n')
    except Exception:
        fixes = []
    m = dict(
        version=1,
        setup_cmd='./setup.sh',
        hooks=dict(guard='arkworks_rs_algebra_verif', enable='none needed: the harness crate reaches every routine through the public API (no source hooks in /repo)',
                   baseline_off_cmd='cd /repo/$(cat /w/out/cargo_root.txt) && cargo nextest run --workspace --no-fail-fast --tool-config-file pb:/w/lib/nextest.toml --profile pb --test-threads 8 --offline',
                   source_commits=[], add_only=True),
        engines=[dict(name='kani-cbmc', path='tools/driver.py', serves_properties=[c['property_id'] for c in checks],
                      kind_free_text='Kani 0.68 compiles the harness crate (path deps on /repo) to GOTO; CBMC 6.11 symbolic execution; CaDiCaL or SMT-LIB->cvc5 decide')],
        checks=checks,
        notes='Solver-based checking of the real code. fix: commits in /repo: ' + '; '.join(f for f in fixes if f) + '. See known_findings.json and DESIGN.md §7.',
        not_applicable=na,
    )
    json.dump(m, open(f'{ROOT}/MANIFEST.json', 'w'), indent=1)
    print('MANIFEST.json:', len(checks), 'checks,', len(na), 'not applicable')

if __name__ == '__main__':
    main()
