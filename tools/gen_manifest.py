#!/usr/bin/env python3
"""Regenerate MANIFEST.json from the per-property claim table below (keeps it valid and consistent)."""
import json, os, subprocess
ROOT = os.path.dirname(os.path.dirname(os.path.abspath(__file__)))
TECH_K = 'bounded model checking of the compiled Rust (Kani 0.68 -> CBMC 6.11, CaDiCaL): symbolic inputs, unwinding assertions on, cover witnesses against vacuity, native replay of counterexamples'
TECH_KW = TECH_K + '; multiplication kernels exported by CBMC as SMT-LIB and decided by cvc5 (word-level bit-vectors)'
NOTE = ('Trusted: rustc/Kani MIR->GOTO translation, CBMC, CaDiCaL, cvc5; the harness-crate oracles (independent reference arithmetic, no ark_* code). '
        'Bounded: instantiations, sizes and unwind bounds are those listed in the evidence samples; other instantiations of the same generic code are outside the claim. ')
CLAIMS = {
 'C15': dict(tech=TECH_KW, ref='DESIGN.md §4 C15',
   text='For BigInt<N> (N=1,2,4,6,7 quick; 12,13 thorough) the solver decides over ALL operands: add_with_carry/sub_with_borrow (limbs and exact carry/borrow), mul2/div2, muln/divn/<</>> for every shift amount 0..64N+64 at bit level, Ord/Eq/predicates, get_bit/num_bits/bit operators, two_adic_*, From<ints>, from_bits/to_bits/to_bytes (N=1; N=2 thorough); mul/mul_low/mul_high over all operands at N=1,2 (cvc5) and on narrow windows at N=4,6; NAF/wNAF/relaxed-NAF recodings reconstruct the value and obey digit constraints for all values < 2^10..2^12, and (thorough) on the wrap-around region next to 2^64 and across the limb boundary.',
   note=NOTE + 'Decimal/hex parsing and printing (num-bigint radix conversion on the heap) are NOT covered. Recodings of generic 64-bit values are outside the bound.'),
}
NA = {
 'C06': 'Pairings: >= 10^4 full-width symbolic 64x64 multiplications per pairing and no tractable instantiation of the shipped models; one 4-limb Montgomery multiplication is already beyond both solver back ends (DESIGN.md §4 C06).',
}
ALL = ['C%02d' % i for i in range(1, 21)]

def main():
    checks = []
    for pid in ALL:
        if pid not in CLAIMS:
            continue
        c = CLAIMS[pid]
        checks.append(dict(
            property_id=pid, quick_cmd=f'./check {pid} --tier quick', thorough_cmd=f'./check {pid} --tier thorough',
            evidence_file=f'/verif/evidence/{pid}.json', replay_cmd_template=f'./check {pid} --replay {{path}}', engine='kani-cbmc',
            level_claimed=dict(category='model_checking', text=c['text'], design_ref=c['ref']),
            level_note=c['note'], technique=c['tech']))
    na = []
    for pid in ALL:
        if pid in CLAIMS:
            continue
        na.append(dict(property_id=pid, reason=NA.get(pid, 'No check registered in this revision (harnesses for this property are not built yet); not claimed.')))
    try:
        fixes = subprocess.run(['git', '-C', '/repo', 'log', '--format=%H %s', '--grep=^fix:'], stdout=subprocess.PIPE, text=True).stdout.split('\n')
    except Exception:
        fixes = []
    m = dict(
        version=1,
        setup_cmd='./setup.sh',
        hooks=dict(guard='arkworks_rs_algebra_verif', enable='none needed: the harness crate reaches every routine through the public API (no source hooks in /repo)',
                   baseline_off_cmd='cd /repo/$(cat /w/out/cargo_root.txt) && cargo nextest run --workspace --no-fail-fast --tool-config-file pb:/w/lib/nextest.toml --profile pb --test-threads 8 --offline',
                   source_commits=[], add_only=True),
        engines=[dict(name='kani-cbmc', path='tools/driver.py', serves_properties=[c['property_id'] for c in checks],
                      kind_free_text='Kani 0.68 compiles the harness crate (path deps on /repo) to GOTO; CBMC 6.11 symbolic execution; CaDiCaL or SMT-LIB->cvc5 decide')],
        checks=checks,
        notes='Solver-based checking of the real code. fix: commits in /repo: ' + '; '.join(f for f in fixes if f) + '. See known_findings.json and DESIGN.md §7.',
        not_applicable=na,
    )
    json.dump(m, open(f'{ROOT}/MANIFEST.json', 'w'), indent=1)
    print('MANIFEST.json:', len(checks), 'checks,', len(na), 'not applicable')

if __name__ == '__main__':
    main()
