#!/usr/bin/env python3
"""Regenerate MANIFEST.json from the per-property claim table below (keeps it valid and consistent)."""
import json, os, subprocess
ROOT = os.path.dirname(os.path.dirname(os.path.abspath(__file__)))
TECH_K = 'bounded model checking of the compiled Rust (Kani 0.68 -> CBMC 6.11, CaDiCaL): symbolic inputs, unwinding assertions on, cover witnesses against vacuity, native replay of counterexamples'
TECH_KW = TECH_K + '; multiplication kernels exported by CBMC as SMT-LIB and decided by cvc5 (word-level bit-vectors)'
NOTE = ('Trusted: rustc/Kani MIR->GOTO translation, CBMC, CaDiCaL, cvc5; the harness-crate oracles (independent reference arithmetic, no ark_* code). '
        'Bounded: instantiations, sizes and unwind bounds are those listed in the evidence samples; other instantiations of the same generic code are outside the claim. ')
CLAIMS = {
 'C01': dict(tech=TECH_KW, ref='DESIGN.md §4 C01',
   text='Real generic Fp<MontBackend> code instantiated in the harness crate, each modulus BOTH through #[derive(MontConfig)] (macro-generated arithmetic) and as a hand-written impl MontConfig (trait-default arithmetic). Tiny moduli (13, 251, 65521/65537; thorough: 3,7,17,31,73,97,127,257): the solver decides over ALL operands add/sub/neg/double/mul/square/inverse/sum_of_products/from_bigint/into_bigint/From<ints>/bytes_mod_order against integer arithmetic mod p on independently decoded values, results canonical. Full-width moduli (1,2,4,6 limbs quick; 12,13 thorough; with/without spare bit, no-carry eligible or not, Mersenne, top limb 2^63-1): add/sub/neg/double over ALL operands vs limb-wise reference; Montgomery mul (and into_bigint) over ALL operands at 1 and 2 limbs against textbook SOS/CIOS references (cvc5); at 4/6 limbs only narrow operand windows.',
   note=NOTE + 'Multiplication at >= 4 limbs is NOT decided over the operand space (only 8-free-bit windows). pow and batch inversion only in the thorough tier on F_13 (attempts). Decimal FromStr/Display (num-bigint heap radix conversion) not covered. CBMC SMT2 export is patched for a known overflow_result layout bug (DESIGN.md §2.2).'),
 'C15': dict(tech=TECH_KW, ref='DESIGN.md §4 C15',
   text='For BigInt<N> (N=1,2,4,6,7 quick; 12,13 thorough) the solver decides over ALL operands: add_with_carry/sub_with_borrow (limbs and exact carry/borrow), mul2/div2, muln/divn/<</>> for every shift amount 0..64N+64 at bit level, Ord/Eq/predicates, get_bit/num_bits/bit operators, two_adic_*, From<ints>, from_bits/to_bits/to_bytes (N=1; N=2 thorough); mul/mul_low/mul_high over all operands at N=1,2 (cvc5) and on narrow windows at N=4,6; NAF/wNAF/relaxed-NAF recodings reconstruct the value and obey digit constraints for all values < 2^10..2^12, and (thorough) on the wrap-around region next to 2^64 and across the limb boundary.',
   note=NOTE + 'Decimal/hex parsing and printing (num-bigint radix conversion on the heap) are NOT covered. Recodings of generic 64-bit values are outside the bound.'),
}
CLAIMS['C18'] = dict(tech=TECH_K, ref='DESIGN.md §4 C18',
   text='For ALL values of bool, u8..u64, i8..i64, usize/isize, Option, tuples (arity 0..5), arrays, Vec<u16> (len 0,1,3), VecDeque (wrapped ring buffer), LinkedList, Rc/Arc/Cow/slices, BigInt<2>, mode-pinning wrappers around a type whose encodings differ, and derived structs (named, tuple, nested-tuple, generic): round trip in a symbolically chosen (compress, validate) mode, bytes written == serialized_size, truncated encodings are Err. Malformed input: EVERY byte string of length 0..=10/12 offered to the scalar, Option, tuple, array, Vec<u8>, Vec<u32>, VecDeque<u16>, LinkedList<u8> deserializers: Ok or Err, no panic, no capacity overflow / allocation driven by the untrusted length prefix; invalid bool bytes and invalid inner values (checked wrappers, derived Valid) are rejected.',
   note=NOTE + 'String (UTF-8 validation) and BTreeMap/BTreeSet harnesses exceed the memory cap under CBMC and are thorough-tier attempts only (not counted); BigUint thorough attempt. Element types are small integers.')
PLAIN = ' Toy curves are configurations of the REAL ark_ec models over F_13 / F_17 with a table-backed `FpConfig` backend defined in the harness crate (so the solver effort goes into the curve code, not Montgomery arithmetic); oracle tables (points, addition, orders, subgroup, scalar multiples) are computed by brute force in Python from the curve equation.'
CLAIMS['C03'] = dict(tech=TECH_K, ref='DESIGN.md §4 C03',
   text='On toy short-Weierstrass curves (a=0 order 19; a!=0 order 17; cofactor 4 with a point of order two) and twisted-Edwards curves (complete, cofactor 4 and (thorough) 8: whole curve; incomplete law: prime-order subgroup) the solver decides for ALL ordered pairs of points (identity, P+P, P+(-P), 2-torsion) and ALL non-zero projective rescalings of both operands: Projective +, +=, -, mixed addition in both operand orders, Affine+Affine, double, neg, into_affine / From<Affine>, projective equality independent of the representative and Projective==Affine, against the brute-force group-law table; results are exactly the expected point (hence on the curve).',
   note=NOTE + PLAIN + ' normalize_batch / Sum harnesses exceed the CBMC memory cap and are thorough-tier attempts only. Curves over >= 255-bit fields and over extension fields are outside the claim (same generic code).')
CLAIMS['C05'] = dict(tech=TECH_K, ref='DESIGN.md §4 C05',
   text='The real generic VariableBaseMSM code is run over the free abelian group Z^L (harness crate, checked i64 coordinates) with unit-vector bases, so the result must be exactly the vector of integer scalars. Both flavours are reached through the public trait: NEGATION_IS_CHEAP=true (msm_bigint_wnaf + make_digits, as every shipped group) and =false (plain-bucket msm_bigint). Decided for ALL scalars of F_13 (4 bits, two windows) at lengths 1 and 2 (3 thorough), F_61 (6 bits: carry folded into the top digit reaches 2^c), F_127 thorough: msm, msm_unchecked, msm_bigint; mismatched lengths -> Err(min) / truncation; repeated and identity bases; ChunkedPippenger for buffer sizes 1..4 with 2-4 add calls (flush inside add, several flushes, flush at finalize).',
   note=NOTE + 'Parametricity assumption (stated, checked by reading): the MSM code touches group elements only through +, -, double, zero, so correctness on free generators carries to all bases. Scalar fields are 4-7 bits; window-size switch at 32 inputs, msm_chunks multi-chunk streams, HashMapPippenger (thorough attempt), empty input (thorough attempt: CBMC memory) and >16-bit scalar fields are outside the quick claim. Per-loop unwind bounds (--unwindset) with unwinding assertions on.')
NA = {
 'C06': 'Pairings: >= 10^4 full-width symbolic 64x64 multiplications per pairing and no tractable instantiation of the shipped models; one 4-limb Montgomery multiplication is already beyond both solver back ends (DESIGN.md §4 C06).',
}
ALL = ['C%02d' % i for i in range(1, 21)]

def main():
    checks = []
    for pid in ALL:
        if pid not in CLAIMS:
            continue
        c = CLAIMS[pid]
        checks.append(dict(
            property_id=pid, quick_cmd=f'./check {pid} --tier quick', thorough_cmd=f'./check {pid} --tier thorough',
            evidence_file=f'/verif/evidence/{pid}.json', replay_cmd_template=f'./check {pid} --replay {{path}}', engine='kani-cbmc',
            level_claimed=dict(category='model_checking', text=c['text'], design_ref=c['ref']),
            level_note=c['note'], technique=c['tech']))
    na = []
    for pid in ALL:
        if pid in CLAIMS:
            continue
        na.append(dict(property_id=pid, reason=NA.get(pid, 'No check registered in this revision (harnesses for this property are not built yet); not claimed.')))
    try:
        fixes = subprocess.run(['git', '-C', '/repo', 'log', '--format=%H %s', '--grep=^fix:'], stdout=subprocess.PIPE, text=True).stdout.split('\n')
    except Exception:
        fixes = []
    m = dict(
        version=1,
        setup_cmd='./setup.sh',
        hooks=dict(guard='arkworks_rs_algebra_verif', enable='none needed: the harness crate reaches every routine through the public API (no source hooks in /repo)',
                   baseline_off_cmd='cd /repo/$(cat /w/out/cargo_root.txt) && cargo nextest run --workspace --no-fail-fast --tool-config-file pb:/w/lib/nextest.toml --profile pb --test-threads 8 --offline',
                   source_commits=[], add_only=True),
        engines=[dict(name='kani-cbmc', path='tools/driver.py', serves_properties=[c['property_id'] for c in checks],
                      kind_free_text='Kani 0.68 compiles the harness crate (path deps on /repo) to GOTO; CBMC 6.11 symbolic execution; CaDiCaL or SMT-LIB->cvc5 decide')],
        checks=checks,
        notes='Solver-based checking of the real code. fix: commits in /repo: ' + '; '.join(f for f in fixes if f) + '. See known_findings.json and DESIGN.md §7.',
        not_applicable=na,
    )
    json.dump(m, open(f'{ROOT}/MANIFEST.json', 'w'), indent=1)
    print('MANIFEST.json:', len(checks), 'checks,', len(na), 'not applicable')

if __name__ == '__main__':
    main()
